"""C07 - the heap always yields a maximum element; the linked tree stays complete."""
import random
from lib.engine import Spec
from lib.core import Case


def parse_line(line):
    """'ok <out> | <size> : a b . c ... [MALFORMED why]'  (full)  or
       'ok <out> | <size> ~ r [MALFORMED why]'             (brief)
       -> (out, size, mode, tokens, malformed)"""
    head, _, st = line.partition('|')
    out = [int(x) for x in head.split()[1:]]
    w = st.split()
    mal = None
    if 'MALFORMED' in w:
        i = w.index('MALFORMED')
        mal = '-'.join(w[i + 1:]) or 'unspecified'
        w = w[:i]
    size = int(w[0])
    mode = w[1]
    toks = [None if t == '.' else int(t) for t in w[2:]]
    return out, size, mode, toks, mal


def decode_level_order(toks):
    """-> list of (position, id, parent_id or None); position = 1-based level-order
    number (root 1, children 2p and 2p+1).  None if the token list is not a
    well-formed serialisation."""
    if not toks:
        return None
    nodes = []
    if toks[0] is None:
        return [] if len(toks) == 1 else None
    q = [(1, toks[0], None)]
    i = 1
    qi = 0
    while qi < len(q):
        pos, e, par = q[qi]
        qi += 1
        nodes.append((pos, e, par))
        for d in (0, 1):
            if i >= len(toks):
                return None
            t = toks[i]
            i += 1
            if t is not None:
                q.append((2 * pos + d, t, e))
    if i != len(toks):
        return None
    return nodes


class C07(Spec):
    pid = 'C07'
    component = 'heap'
    driver = 'heap'
    lib_srcs = ['heap.c', 'common.c', 'bintree.c']
    header_words = ('keys', 'dumpevery', 'cmpmode', 'swapobj')

    def more_variants(self, cases, tier, seed):
        # every third case once more with the heap moved between two objects by cstl_heap_swap (see drv_heap.c)
        from checks import treelib
        return treelib.swap_variants(cases, seed, every=3)
    rule = ('cases = corpus + one case per edge of the breadth-first closure of the Coq model over small element pools '
            'with duplicated keys (shortest path to the state + the operation) + seeded random push/pop/get/size/clear '
            'histories with heavy key duplication, aimed at sizes around powers of two; a case is non-trivial when its '
            'model trace has at least two completed operations; distinct = distinct (header, operations) text')
    trusted = ['modelled, not verified: the C statements of src/heap.c, cstl_fls (src/common.c) and the post-order clear of '
               'src/bintree.c are transcribed by hand into HeapModel.v (functional tree + zipper, explicit size field with '
               'unsigned int / size_t wrap-around); swapping a node with its parent is modelled as exchanging the two '
               'elements; a second, pointer-level transcription (HeapLinksModel.v: memory of {p,l,r} nodes, every link store of heap.c in source order) is proved to simulate the functional model (C07_links_*) and is executed by the runner next to it for pools up to 160 elements (any difference is a correspondence failure); the driver checks every parent pointer and the size field of the real structure at every step',
               'comparison callback modelled as the order on integer keys']
    assumptions_text = ['an element is pushed only while it is not in the heap (intrusive node)',
                        'theorems that need the navigation state size < 2^31 (unsigned int id, 1 << fls on int)']

    def keys_of(self, case):
        keys = []
        for h in case.header:
            w = h.split()
            if w[0] == 'keys':
                keys += [int(x) for x in w[1:]]       # keys lines append
        return keys

    def oracle(self, case, impl):
        keys = self.keys_of(case)

        def key(e):
            return keys[e] if 0 <= e < len(keys) else 0
        bag = set()
        for i, op in enumerate(case.ops):
            w = op.split()
            name = w[0]
            if name == 'push' and int(w[1]) in bag:
                return None                     # outside the domain
            if i >= len(impl):
                return ('%s:no-output' % name, 'no output for operation %d (%s)' % (i, op))
            line = impl[i]
            if not line.startswith('ok'):
                return ('%s:%s' % (name, line.split()[0]),
                        'operation %d (%s) ended in %s; expected normal return' % (i, op, line))
            try:
                out, size, mode, toks, mal = parse_line(line)
            except Exception:
                return ('%s:garbled' % name, 'unparsable line %r' % line)
            where = 'operation %d (%s)' % (i, op)
            mx = max((key(e) for e in bag), default=None)
            if name == 'push':
                if out:
                    return ('push:wrong-result', '%s printed %s' % (where, out))
                bag.add(int(w[1]))
            elif name in ('pop', 'get'):
                if not bag:
                    if out != [-1]:
                        return ('%s:empty-not-null' % name, '%s on an empty heap returned %s' % (where, out))
                else:
                    if len(out) != 1 or out[0] not in bag:
                        return ('%s:not-an-element' % name,
                                '%s returned %s which is not in the heap %s' % (where, out, sorted(bag)))
                    if key(out[0]) != mx:
                        return ('%s:not-maximum' % name,
                                '%s returned element %d with key %d but the heap holds key %d' % (
                                    where, out[0], key(out[0]), mx))
                    if name == 'pop':
                        bag.discard(out[0])
            elif name == 'size':
                if out != [len(bag)]:
                    return ('size:wrong-result', '%s returned %s, the heap holds %d elements' % (where, out, len(bag)))
            elif name == 'clear':
                if sorted(out) != sorted(bag):
                    return ('clear:not-each-once', '%s called back for %s, heap held %s' % (where, out, sorted(bag)))
                bag = set()
            else:
                return None
            # state after the operation
            if mal:
                return ('malformed:%s' % mal, 'after %s the linked structure is inconsistent: %s' % (where, mal))
            if size != len(bag):
                return ('size:field', 'after %s the size field is %d, the heap holds %d elements' % (where, size, len(bag)))
            if mode == '~':
                if (toks == [None]) != (not bag):
                    return ('shape:root', 'after %s root is %s, heap holds %d elements' % (where, toks, len(bag)))
                if bag and (toks[0] not in bag or key(toks[0]) != max(key(e) for e in bag)):
                    return ('order:root-not-maximum', 'after %s the root %s is not a maximum' % (where, toks))
                continue
            nodes = decode_level_order(toks)
            if nodes is None:
                return ('shape:garbled', 'after %s: level order %s is not a tree' % (where, toks))
            ids = [e for _, e, _ in nodes]
            if sorted(ids) != sorted(bag):
                return ('bag:wrong-elements', 'after %s the tree holds %s, expected %s' % (where, sorted(ids), sorted(bag)))
            if sorted(p for p, _, _ in nodes) != list(range(1, len(nodes) + 1)):
                return ('shape:incomplete', 'after %s the occupied level-order positions are %s, not 1..%d' % (
                    where, sorted(p for p, _, _ in nodes)[:40], len(nodes)))
            for p, e, par in nodes:
                if par is not None and key(par) < key(e):
                    return ('order:parent-less-than-child',
                            'after %s element %d (key %d) at position %d is above its parent %d (key %d)' % (
                                where, e, key(e), p, par, key(par)))
        return None

    def closure(self, tier):
        if tier == 'quick':
            runs = [[100000, 0, 0, 1, 1, 2, 2], [100000, 0, 0, 1, 1, 2, 2, 1]]
        else:
            runs = [[100000, 0, 0, 1, 1, 2, 2], [1000000, 1, 0, 2, 0, 1, 2, 1, 0], [1000000, 0, 1, 2, 3, 4, 5, 6]]
        cases, st = [], dict(states=0, transitions=0, closed=True)
        for r in runs:
            c, s = self.bfs(r)
            cases += c
            # the same model traces against a comparator that returns key differences
            cases += [Case(x.name + 'd', x.header + ['cmpmode 1'], x.ops, x.origin) for x in c]
            st = dict(states=st['states'] + s.get('states', 0), transitions=st['transitions'] + s.get('transitions', 0),
                      closed=st['closed'] and s.get('closed', False))
        return cases, st

    def one_random(self, rnd, name, ne, nops, nkeys, every):
        keys = [rnd.randrange(0, nkeys) for _ in range(ne)]
        inheap = []             # ids, order irrelevant
        free = list(range(ne))
        rnd.shuffle(free)
        ops = []
        # target size wanders; boundaries 2^k - 1, 2^k are favoured
        bounds = [b for k in range(1, 15) for b in (2 ** k - 2, 2 ** k - 1, 2 ** k, 2 ** k + 1) if 0 < b <= ne]
        target = rnd.choice(bounds) if bounds and rnd.random() < 0.7 else rnd.randrange(0, ne + 1)
        # the oracle recomputes everything from the trace; the generator only needs
        # to know which ids are in the heap, which needs the popped id: keep a
        # max-heap of (key, tie) is NOT possible without knowing the C tie-breaking,
        # so ids of popped elements are recycled only after a clear or when the
        # heap is known to be empty.
        popped = 0              # number of pops since the bag was last known exactly
        for _ in range(nops):
            n = len(inheap) - popped
            r = rnd.random()
            if r < 0.04:
                ops.append(rnd.choice(['get', 'size']))
                continue
            if r < 0.05 and rnd.random() < 0.3:
                ops.append('clear')
                free += inheap
                inheap = []
                popped = 0
                rnd.shuffle(free)
                continue
            if n == target or rnd.random() < 0.02:
                target = rnd.choice(bounds) if bounds and rnd.random() < 0.7 else rnd.randrange(0, ne + 1)
            want_push = n < target if rnd.random() < 0.85 else rnd.random() < 0.5
            if want_push and free:
                e = free.pop()
                inheap.append(e)
                ops.append('push %d' % e)
            else:
                ops.append('pop')
                if n > 0:
                    popped += 1
                    if popped == len(inheap):
                        free += inheap
                        inheap = []
                        popped = 0
                        rnd.shuffle(free)
        hdr = ['keys ' + ' '.join(map(str, keys[i:i + 48])) for i in range(0, len(keys), 48)]
        hdr.append('cmpmode %d' % rnd.choice([0, 1, 2]))
        if every > 1:
            hdr.append('dumpevery %d' % every)
        return Case(name, hdr, ops, 'random')

    def random_cases(self, tier, seed):
        rnd = random.Random(seed * 7919 + 7)
        cases = []
        if tier == 'quick':
            plan = [(250, [4, 8, 16, 33, 70], [10, 30, 80, 200], 1),
                    (40, [130, 260, 400], [300, 600], 1),
                    (6, [1100, 2100], [4000], 32)]
        else:
            plan = [(3000, [4, 8, 16, 33, 70], [10, 30, 80, 200], 1),
                    (300, [130, 260, 520], [300, 600, 1200], 1),
                    (40, [1100, 2100, 4200], [10000], 64),
                    (3, [5000, 9000], [60000], 256)]
        ci = 0
        for count, pools, lens, every in plan:
            for _ in range(count):
                ne = rnd.choice(pools)
                nk = rnd.choice([1, 2, 3, 3, 5, max(2, ne // 4), 4 * ne])
                cases.append(self.one_random(rnd, 'rnd%d' % ci, ne, rnd.choice(lens), nk, every))
                ci += 1
        return cases


SPEC = C07()

MANIFEST = dict(
    text='Coq theorems (Properties_C07.v) over an executable model of src/heap.c and cstl_fls: for every push/pop/get/'
         'size/clear history the tree is complete (occupied level-order positions are exactly 1..size), heap-ordered and '
         'duplicate-free, the slot computed from the size alone is the first free slot / the last node, get and pop return '
         'NULL exactly on the empty heap and otherwise an element of the heap whose key is >= every other, pop removes '
         'exactly it, push adds exactly its argument, nothing faults while size < 2^31; a pointer-level model of the same '
         'code (all link and parent-pointer stores, promote_child included) is proved to simulate the functional one. The model is tied to the C code on '
         'every run by differential execution (closure of the model state space over small pools with duplicated keys + '
         'seeded random histories) under ASan/UBSan, comparing results and the full level-order shape with element '
         'identities; the driver checks every parent pointer and the size field at every step.',
    note='trusted: Coq kernel; hand transcription of heap.c/cstl_fls into HeapModel.v validated only by the correspondence '
         'run; node swap modelled as element exchange (parent pointers checked by the driver, not proved); extraction '
         '(ExtrOcamlBasic) + OCaml runner; C driver; comparison callback modelled as the order on integer keys',
    technique='Coq proof (inductive invariant: complete + heap-ordered + no duplicates; bag refinement; navigation lemma '
              'from find-last-set) + model/code differential correspondence',
    design='6 (C07)')
