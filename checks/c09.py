"""C09 - a vector never reports size or capacity it has no storage for."""
import os
import random
from lib.engine import Spec
from lib.core import Case
from checks.vecstr_common import (LIMIT, SIZE_MAX, W64, parse_header, split_line, AllocLog,
                                  storage_problem)

# ASan reports are only classified (exit code), never read: skip symbolisation (x20 faster on failing trees)
os.environ.setdefault('ASAN_OPTIONS', 'symbolize=0')

POISON = 190     # harness/drv_vector.c: element that entered [0,size) without a constructor
CTORV = 193      # value written by the driver's constructor
ESIZES = [1, 2, 3, 4, 8, 16, 64]


def representable(n, es):
    return n < SIZE_MAX and (n + 1) * es < W64


class RefVec:
    def __init__(self, es, cons, dest):
        self.es, self.cons, self.dest = es, cons, dest
        self.elems = []
        self.cap = 0


def parse_vec(tok):
    """count cap esize blk bsz elems... -> dict"""
    d = dict(count=int(tok[0]), cap=int(tok[1]), es=int(tok[2]), blk=int(tok[3]), bsz=int(tok[4]))
    d['over'] = 'over' in tok[5:]
    d['elems'] = [int(x) for x in tok[5:] if x != 'over']
    return d


class C09(Spec):
    pid = 'C09'
    component = 'vector'
    driver = 'vector'
    lib_srcs = ['vector.c', 'array.c', 'memory.c']
    driver_extra = '-Wl,--wrap=malloc,--wrap=realloc,--wrap=free,--wrap=calloc'
    header_words = ('vec', 'fail', 'failfrom', 'samecb', 'atdiscard')

    def more_variants(self, cases, tier, seed):
        # every second case with a vector that has both callbacks once more with ONE function in both roles
        out, n = [], 0
        for c in cases:
            if any(h.split()[0] == 'samecb' for h in c.header):
                continue
            if not any(h.split()[0] == 'vec' and h.split()[2:4] == ['1', '1'] for h in c.header):
                continue
            n += 1
            if n % 2 == 0:
                out.append(Case(c.name + 'b', c.header + ['samecb 1'], c.ops, c.origin))
        # every second case with an at() once more with a caller that discards the address of out-of-range lookups
        n = 0
        for c in cases:
            if any(h.split()[0] == 'atdiscard' for h in c.header) or not any(o.split()[0] == 'at' for o in c.ops):
                continue
            n += 1
            if n % 2 == 0:
                out.append(Case(c.name + 'd', c.header + ['atdiscard 1'], c.ops, c.origin))
        return out
    rule = ('cases = corpus + one case per edge of the breadth-first closure of the Coq model (allocator history '
            'normalised away) over sizes {0..3, SIZE_MAX, SIZE_MAX-1, SIZE_MAX/esize and neighbours}, several element '
            'sizes and constructor/destructor configurations + seeded random histories with allocation failures by '
            'ordinal; every case ends with clear of every vector and a live-block count; a case is non-trivial when its '
            'model trace has at least two completed operations; distinct = distinct (header, operations) text')
    trusted = ['modelled, not verified: the C statements of src/vector.c are transcribed by hand into VectorModel.v; '
               'sort/reverse are modelled as "sorted permutation"/"reversal" of the contents using the scratch cell '
               '(the algorithms are C11); elements entering without a constructor are given the value POISON by the driver',
               'allocator: harness/halloc.h wrapper with the policy of AllocModel.v (failure by ordinal, > 2^32 bytes refused)']
    assumptions_text = ['element size >= 1', 'swap of a vector with itself and reverse of more than INT_MAX elements are '
                        'outside the domain']

    # ---------------------------------------------------------------- oracle
    def oracle(self, case, impl):
        h = parse_header(case)
        shapes = h['vec']
        if not shapes:
            return None
        nv = len(shapes)
        alog = AllocLog(h['fails'], h['failfrom'])
        ref = [RefVec(*s) for s in shapes]
        ops = list(case.ops) + ['clear %d' % i for i in range(nv)]
        for i, op in enumerate(ops):
            w = op.split()
            name = w[0]
            a = int(w[1])
            if not (0 <= a < nv):
                return None
            v = ref[a]
            n = int(w[2]) if len(w) > 2 else 0
            exp_abort = False
            if name in ('at', 'put'):
                exp_abort = n >= len(v.elems)
            elif name == 'resize':
                exp_abort = n > v.cap and (not representable(n, v.es) or alog.would_fail((n + 1) * v.es))
            elif name == 'swap':
                if not (0 <= n < nv) or n == a:
                    return None
            elif name == 'reverse' and len(v.elems) > 2 ** 31 - 1:
                return None
            if i >= len(impl):
                return ('%s:no-output' % name, 'no output for operation %d (%s)' % (i, op))
            line = impl[i]
            if line == 'precond':
                return None
            if line == 'abort':
                if exp_abort:
                    return None
                return ('%s:unexpected-abort' % name, 'operation %d (%s) aborted; size %d capacity %d' % (
                    i, op, len(v.elems), v.cap))
            if not line.startswith('ok'):
                return ('%s:%s' % (name, line.split()[0]), 'operation %d (%s) ended in %s' % (i, op, line))
            if exp_abort:
                return ('%s:missing-abort' % name, 'operation %d (%s) returned although %s' % (
                    i, op, 'the index is not below size %d' % len(v.elems) if name in ('at', 'put')
                    else 'the growth to %d elements cannot be satisfied (capacity %d)' % (n, v.cap)))
            try:
                out, objs, events = split_line(line)
                got = [parse_vec(t) for t in objs]
            except Exception:
                return ('%s:garbled' % name, 'unparsable line %r' % line)
            ev = alog.feed(events)
            if alog.problem:
                return ('%s:bad-free' % name, 'operation %d (%s): %s' % (i, op, alog.problem))
            if len(got) != nv:
                return ('%s:garbled' % name, 'expected %d vectors in %r' % (nv, line))
            if name == 'swap':
                ref[a], ref[n] = ref[n], ref[a]
            used = set()
            for k, g in enumerate(got):
                p = storage_problem('vector %d' % k, g['count'], g['cap'], g['es'], g['blk'], g['bsz'], alog, used)
                if p is None and g['over']:
                    p = 'vector %d: element storage outside the block' % k
                if p:
                    return ('%s:capacity-without-storage' % name, 'after operation %d (%s): %s' % (i, op, p))
            # semantics of the operation on vector a; every other vector unchanged
            g = got[a]
            v = ref[a]
            exp_out = []
            old = list(v.elems)
            if name == 'reserve':
                if not (g['cap'] == v.cap or (n > v.cap and g['cap'] == n)):
                    return ('reserve:wrong-capacity', 'operation %d (%s): capacity %d -> %d' % (i, op, v.cap, g['cap']))
                v.cap = g['cap']
            elif name == 'shrink':
                if not (g['cap'] == v.cap or g['cap'] == len(v.elems)):
                    return ('shrink:wrong-capacity', 'operation %d (%s): capacity %d -> %d, size %d' % (
                        i, op, v.cap, g['cap'], len(v.elems)))
                v.cap = g['cap']
            elif name in ('resize', 'clear'):
                tgt = n if name == 'resize' else 0
                if tgt > len(old):
                    v.elems = old + [CTORV if v.cons else POISON] * (tgt - len(old))
                    if v.cons:
                        for j in range(len(old), tgt):
                            exp_out += [1, j]
                else:
                    v.elems = old[:tgt]
                    if v.dest:
                        for j in range(len(old) - 1, tgt - 1, -1):
                            exp_out += [2, j, old[j]]
                expcap = 0 if name == 'clear' else max(v.cap, tgt)
                if g['cap'] != expcap:
                    return ('%s:wrong-capacity' % name, 'operation %d (%s): capacity %d, expected %d' % (
                        i, op, g['cap'], expcap))
                v.cap = expcap
                if name == 'clear' and g['blk'] != -1:
                    return ('clear:buffer-kept', 'operation %d (%s): buffer still installed' % (i, op))
            elif name == 'at':
                exp_out = [n * v.es]
            elif name == 'put':
                v.elems[n] = int(w[3])
            elif name == 'sort':
                v.elems = sorted(v.elems)
            elif name == 'reverse':
                v.elems = v.elems[::-1]
            try:
                outi = [int(x) for x in out]
            except ValueError:
                return ('%s:garbled' % name, 'unparsable output %r' % out)
            if outi != exp_out:
                what = 'constructor/destructor calls' if name in ('resize', 'clear') else 'result'
                return ('%s:wrong-%s' % (name, 'xtor-log' if name in ('resize', 'clear') else 'result'),
                        'operation %d (%s): %s %s, expected %s (1 i = constructor on index i, 2 i x = destructor on '
                        'index i holding x)' % (i, op, what, outi, exp_out))
            for k, (gv, rv) in enumerate(zip(got, ref)):
                if gv['count'] != len(rv.elems) or gv['es'] != rv.es:
                    return ('%s:wrong-size' % name, 'after operation %d (%s): vector %d has size %d, expected %d' % (
                        i, op, k, gv['count'], len(rv.elems)))
                if gv['cap'] != rv.cap:
                    return ('%s:wrong-capacity' % name, 'after operation %d (%s): vector %d has capacity %d, expected %d' % (
                        i, op, k, gv['cap'], rv.cap))
                if gv['elems'] != rv.elems[:256]:
                    return ('%s:wrong-contents' % name, 'after operation %d (%s): vector %d holds %s, expected %s' % (
                        i, op, k, gv['elems'], rv.elems[:256]))
        fin = impl[len(ops)] if len(impl) > len(ops) else '<missing>'
        if fin.split()[:1] != ['fin']:
            return ('fin:no-output', 'no final live-block count (%s)' % fin)
        if fin.split()[1] != '0':
            return ('fin:leak', '%s blocks still live after every vector was cleared' % fin.split()[1])
        return None

    # ---------------------------------------------------------------- generators
    def closure(self, tier):
        if tier == 'quick':
            cfgs = [[60000, 3, 1, 0, 0], [60000, 3, 3, 1, 1], [60000, 3, 8, 1, 0], [60000, 3, 4, 0, 1],
                    [60000, 2, 2, 1, 1, 16, 0, 0], [60000, 2, 64, 1, 1]]
        else:
            cfgs = [[400000, 4, e, c, d] for e in ESIZES for (c, d) in ((0, 0), (1, 1))] + \
                   [[400000, 3, 3, 1, 0], [400000, 3, 8, 0, 1], [400000, 2, 2, 1, 1, 16, 0, 0],
                    [400000, 2, 1, 0, 0, 1, 1, 1]]
        cases, st = [], dict(states=0, transitions=0, closed=True)
        for c in cfgs:
            cs, s = self.bfs(c)
            for x in cs:
                x.name = 'bfs%d_%s' % (len(cases), x.name)
            cases += cs
            st['states'] += s.get('states', 0)
            st['transitions'] += s.get('transitions', 0)
            st['closed'] = st['closed'] and s.get('closed', False)
        return cases, st

    def random_cases(self, tier, seed):
        rnd = random.Random(seed * 104729 + 9)
        ncases = 2500 if tier == 'quick' else 40000
        cases = []
        for ci in range(ncases):
            nv = rnd.choice([1, 1, 1, 2, 3])
            shapes = [(rnd.choice(ESIZES), rnd.random() < 0.5, rnd.random() < 0.5) for _ in range(nv)]
            fails, failfrom = set(), None
            r = rnd.random()
            if r < 0.35:
                fails = set(rnd.sample(range(0, 8), rnd.choice([1, 1, 2, 3])))
            elif r < 0.5:
                failfrom = rnd.randrange(0, 6)
            header = ['vec %d %d %d' % (e, c, d) for (e, c, d) in shapes]
            if fails:
                header.append('fail ' + ' '.join(map(str, sorted(fails))))
            if failfrom is not None:
                header.append('failfrom %d' % failfrom)
            # predictive tracker, only used to aim sizes at the boundaries
            cnt = [0] * nv
            cap = [0] * nv
            es = [s[0] for s in shapes]
            nreq = 0

            def request(nbytes):
                nonlocal nreq
                o = nreq
                nreq += 1
                return not (o in fails or (failfrom is not None and o >= failfrom) or nbytes > LIMIT)

            def sizes(a):
                q = SIZE_MAX // es[a]
                pool = [0, 1, 2, 3, 4, 5, 7, cap[a] - 1, cap[a], cap[a] + 1, cnt[a] - 1, cnt[a], cnt[a] + 1,
                        SIZE_MAX, SIZE_MAX - 1, SIZE_MAX - 2, q, q - 1, q + 1, q - 2, 2 ** 63, 2 ** 63 - 1,
                        2 ** 32, 2 ** 62, W64 // es[a], W64 // es[a] - 1]
                pool = [x for x in pool if 0 <= x <= SIZE_MAX and not (4096 < (x + 1) * es[a] <= LIMIT)]
                return pool

            ops = []
            length = rnd.choice([3, 6, 12, 25, 40])
            dead = False
            for _ in range(length):
                if dead:
                    break
                a = rnd.randrange(nv)
                k = rnd.choice(['reserve', 'reserve', 'resize', 'resize', 'resize', 'shrink', 'clear', 'at', 'put',
                                'put', 'swap', 'sort', 'reverse'])
                if k == 'reserve':
                    n = rnd.choice(sizes(a)) if rnd.random() < 0.8 else rnd.randrange(0, 9)
                    ops.append('reserve %d %d' % (a, n))
                    if n > cap[a] and representable(n, es[a]) and request((n + 1) * es[a]):
                        cap[a] = n
                elif k == 'resize':
                    n = rnd.choice(sizes(a)) if rnd.random() < 0.45 else rnd.randrange(0, 9)
                    ops.append('resize %d %d' % (a, n))
                    if n > cap[a]:
                        if representable(n, es[a]) and request((n + 1) * es[a]):
                            cap[a] = n
                        else:
                            dead = True
                    if not dead:
                        cnt[a] = n
                elif k == 'shrink':
                    ops.append('shrink %d' % a)
                    if cap[a] > cnt[a] and request((cnt[a] + 1) * es[a]):
                        cap[a] = cnt[a]
                elif k == 'clear':
                    if rnd.random() < 0.4:
                        ops.append('clear %d' % a)
                        cnt[a] = cap[a] = 0
                elif k == 'at':
                    i = rnd.choice([0, 1, cnt[a] - 1, cnt[a], cnt[a] + 1, SIZE_MAX, SIZE_MAX // es[a] + 1, 2 ** 63])
                    i = max(0, i)
                    ops.append('at %d %d' % (a, i))
                    dead = i >= cnt[a]
                elif k == 'put':
                    if cnt[a] > 0 and rnd.random() < 0.93:
                        i = rnd.randrange(cnt[a])
                    else:
                        i = rnd.choice([cnt[a], cnt[a] + 1, SIZE_MAX])
                    ops.append('put %d %d %d' % (a, i, rnd.randrange(1, 120)))
                    dead = i >= cnt[a]
                elif k == 'swap' and nv > 1:
                    b = rnd.choice([x for x in range(nv) if x != a])
                    ops.append('swap %d %d' % (a, b))
                    cnt[a], cnt[b] = cnt[b], cnt[a]
                    cap[a], cap[b] = cap[b], cap[a]
                    es[a], es[b] = es[b], es[a]
                elif k in ('sort', 'reverse'):
                    ops.append('%s %d' % (k, a))
            if ops:
                cases.append(Case('rnd%d' % ci, header, ops, 'random'))
        return cases


SPEC = C09()

# ---------------------------------------------------------------- C16 (allocation failure never corrupts a container)
def c16_base_cases(tier, seed):
    """Base scripts WITHOUT fail/failfrom headers for the C16 aggregator: allocating operations (reserve,
    shrink_to_fit, resize growth), continued use, then the implicit clear of every vector and the final
    "fin <live blocks>" line that runner and driver print after the last operation."""
    base = [
        (['vec 4 1 1'], ['resize 0 2', 'put 0 1 7', 'reserve 0 6', 'resize 0 5', 'shrink 0', 'put 0 4 9',
                         'resize 0 1', 'shrink 0', 'at 0 0', 'sort 0']),
        (['vec 1 0 0'], ['reserve 0 3', 'resize 0 3', 'put 0 0 5', 'put 0 2 6', 'resize 0 8', 'reverse 0',
                         'shrink 0', 'clear 0', 'resize 0 2']),
        (['vec 8 1 0'], ['resize 0 1', 'resize 0 2', 'resize 0 3', 'put 0 2 11', 'shrink 0', 'reserve 0 9',
                         'resize 0 9', 'at 0 8']),
        (['vec 3 0 1'], ['reserve 0 2', 'reserve 0 4', 'resize 0 4', 'put 0 3 8', 'shrink 0', 'resize 0 0',
                         'shrink 0', 'resize 0 1']),
        (['vec 16 1 1', 'vec 2 0 0'], ['resize 0 2', 'resize 1 3', 'put 1 2 4', 'swap 0 1', 'reserve 0 7',
                                       'resize 1 4', 'shrink 0', 'put 0 0 3', 'clear 1', 'resize 1 1']),
        (['vec 64 1 1'], ['resize 0 1', 'reserve 0 18446744073709551615', 'reserve 0 3', 'resize 0 3',
                          'put 0 2 77', 'shrink 0', 'resize 0 2']),
        (['vec 4 0 0', 'vec 8 1 1'], ['reserve 0 0', 'resize 0 0', 'shrink 0', 'reserve 0 1', 'resize 0 1', 'clear 0', 'shrink 0',
                                      'reserve 0 0', 'reserve 1 0', 'resize 1 2', 'sort 1', 'reverse 1']),
        # the largest count whose elements fit but whose elements + scratch cell do not, and its neighbours
        (['vec 4 0 0', 'vec 12 1 1', 'vec 2 0 0'],
         ['resize 0 2', 'put 0 1 9', 'reserve 0 4611686018427387903', 'reserve 0 4611686018427387902', 'reserve 0 4611686018427387904', 'at 0 1', 'resize 1 1', 'reserve 1 1537228672809129301',
          'reserve 1 1537228672809129300', 'put 1 0 3', 'reserve 2 9223372036854775807', 'reserve 2 9223372036854775806', 'resize 2 1', 'shrink 0', 'shrink 1']),
        (['vec 2 1 1'], ['resize 0 3', 'put 0 0 30', 'put 0 1 20', 'put 0 2 10', 'sort 0', 'reserve 0 5',
                         'reverse 0', 'shrink 0', 'resize 0 4']),
    ]
    if tier != 'quick':
        rnd = random.Random(seed * 7 + 16)
        for _ in range(12):
            e = rnd.choice(ESIZES)
            ops, cnt = [], 0
            for _ in range(rnd.randrange(6, 14)):
                k = rnd.choice(['resize', 'reserve', 'shrink', 'put', 'resize'])
                if k == 'resize':
                    cnt = rnd.randrange(0, 9)
                    ops.append('resize 0 %d' % cnt)
                elif k == 'reserve':
                    ops.append('reserve 0 %d' % rnd.randrange(0, 12))
                elif k == 'shrink':
                    ops.append('shrink 0')
                elif cnt > 0:
                    ops.append('put 0 %d %d' % (rnd.randrange(cnt), rnd.randrange(1, 100)))
            base.append((['vec %d %d %d' % (e, rnd.randrange(2), rnd.randrange(2))], ops))
    return [Case('c16v%d' % i, h, o, 'c16') for i, (h, o) in enumerate(base)]


def c16_spec():
    """The C09 oracle understands fail/failfrom: a refused reserve/shrink_to_fit must be a quiet no-op
    (same contents, size, capacity, storage still valid), a refused growth in resize must abort, every
    other outcome must match the reference, and "fin 0" must close a case that runs to the end."""
    return SPEC


MANIFEST = dict(
    text='Coq theorems (Properties_C09.v) over an executable model of src/vector.c with 64-bit wrap-around arithmetic and '
         'an allocator model quantified over every failure oracle: for every operation sequence with sizes anywhere in '
         '[0, 2^64) the invariant count <= capacity, "no buffer implies capacity 0", live block >= (capacity+1)*element '
         'size as natural numbers is preserved; at aborts iff index >= size; failed growth is the identity for reserve '
         'and an abort for resize; elements keep their values across reallocation; constructor/destructor calls are '
         'exactly the entering/leaving indices in order; no fault, no bad free, no leak after clear. The model is tied '
         'to the C code on every run by differential execution (closure of the model state space + seeded random '
         'histories with allocation failures) under ASan/UBSan with an intercepted allocator.',
    note='trusted: Coq kernel; hand transcription of vector.c into VectorModel.v validated only by the correspondence run; '
         'sort/reverse abstracted to their contract (C11 covers the algorithms); extraction + OCaml runner; C driver and '
         'malloc wrapper; the theorems follow the code repaired by fixes/F8 (the code as found is refuted in FindingsVecStr.v)',
    technique='Coq proof (inductive invariant over operations, all allocator oracles) + model/code differential correspondence',
    design='6 (C09)')
