"""C18 - public headers are usable by client programs that link the library.

Flow of one run (DESIGN.md section 6, C18; notes/C18.md):
  1. translator (gen/headers.py): facts about $REPO/include/cstl/*.h and the
     library freshly built by the project's Makefile -> coq/link/LinkFacts.v
  2. Coq: shared theories (LinkSpec, LinkProofs, FindingsLink), then coq/link:
     LinkFacts.v, Verdicts.v (model verdict for every enumerated program) and
     Properties_C18.v (the theorem, re-checked against the new facts)
  3. real toolchain on the finite configuration set the property names
     (gcc with the project's warning flags + -Werror, ld against libcstl.a and
     libcstl.so, every TU takes the address of every function its headers
     declare), compared with the model's verdicts
  4. report: a failing configuration is a concrete failing input (replay =
     the generated .c files and the command lines).
"""
import hashlib
import threading
import json
import os
import random
import re
import shutil
import subprocess
import time
from concurrent.futures import ThreadPoolExecutor

from lib import core
from gen import headers as translator

PID = 'C18'
LINK = os.path.join(core.COQ, 'link')
WORK = os.path.join(core.BUILD, 'c18')

MANIFEST = dict(
    text='Coq theorem C18_link_ok (coq/link/Properties_C18.v): for EVERY client program - any number of translation '
         'units, each including any public headers of include/cstl in any order and with any repetition - every TU '
         'compiles, no symbol is defined by two objects (client TUs, libcstl.a / libcstl.so) and every function the '
         'headers declare is provided by the library or inline by the header. Proved from a general lemma '
         '(LinkProofs.facts_ok_link_ok, unbounded number of TUs) plus a kernel computation on facts that a translator '
         '(gen/headers.py) regenerates from the headers and from nm of the freshly built libraries on every run; the '
         'model verdicts are compared with gcc/ld on every single header, every ordered pair, repeated inclusion, all '
         'headers together, in one and two TUs, against both libraries.',
    note='partial for the toolchain: the model of preprocessing/compiling/linking (LinkSpec.v) and the assumption that '
         'self-contained guarded headers compose (no diagnostics from macro interactions between headers) are trusted; '
         'that assumption is covered only by the enumerated real compilations. Trusted: Coq kernel; the translator '
         '(cross-checked: gcc -aux-info vs own gcc -E scanner vs nm; #include lines vs gcc -MM; guard scan vs gcc -H); '
         'gcc, nm, ld, make.',
    technique='Coq proof (general lemma over all programs + vm_compute on generated facts) with a source-to-facts '
              'translator re-run on every check, and exhaustive compile/link of the named finite configuration set',
    design='6 (C18)',
)

ASSUMPTIONS = [
    'a header that compiles on its own and is protected by an include guard also compiles after any other such '
    'headers (macro interactions between headers are outside the model; covered by the enumerated compilations only)',
    'public header = include/cstl/*.h whose name does not start with "_" (the template _string.h is attributed to '
    'string.h, which instantiates it)',
    'client TUs are compiled with the CFLAGS of the project Makefile (-std=c99 -pedantic -Wall -Wextra ... '
    '-D_POSIX_C_SOURCE=199309L) plus -Werror; clients link with -lm as the project does',
    'duplicate symbols are counted as the property states them (any symbol defined by two objects), which is '
    'stricter than ld for a definition that sits in an archive member that is never pulled in, or in a shared object',
]


def sh(cmd, cwd=None, timeout=300, env=None):
    e = dict(os.environ)
    if env:
        e.update(env)
    try:
        p = subprocess.run(cmd, cwd=cwd, stdout=subprocess.PIPE, stderr=subprocess.STDOUT, timeout=timeout,
                           text=True, errors='replace', env=e)
        return p.returncode, p.stdout
    except subprocess.TimeoutExpired:
        return 124, 'TIMEOUT'


# ------------------------------------------------------------------ configurations

class Config:
    """prog: tuple of TUs, each a tuple of header names; lib: 'a'|'so'; opt: a key of VARIANTS"""
    __slots__ = ('prog', 'lib', 'opt', 'kind', 'clash')

    def __init__(self, prog, lib, opt='O0', kind='', clash=()):
        self.prog = tuple(tuple(t) for t in prog)
        self.lib = lib
        self.opt = opt
        self.kind = kind
        # names of objects the client program defines itself (translation unit 0): a library that exports a symbol
        # outside its cstl_ / __cstl_ namespace collides with a client that legally uses that name
        self.clash = tuple(clash)

    def ident(self):
        return (self.prog, self.lib, self.opt) + ((self.clash,) if self.clash else ())

    def desc(self):
        return 'lib=%s opt=%s tus=%s%s' % (self.lib, self.opt, ' | '.join(','.join(t) for t in self.prog),
                                          (' client-defines=' + ','.join(self.clash)) if self.clash else '')

    def to_json(self):
        return json.dumps(dict(prog=[list(t) for t in self.prog], lib=self.lib, opt=self.opt, kind=self.kind,
                               clash=list(self.clash)))

    def size(self):
        return (sum(len(t) for t in self.prog), len(self.prog), self.lib != 'a', self.opt != 'O0')


def enumerate_configs(names, tier, seed):
    rnd = random.Random(seed)
    cfgs = []
    singles = [(h,) for h in names]
    doubles = [(h, h) for h in names]
    pairs = [(a, b) for a in names for b in names if a != b]
    alls = [tuple(names), tuple(reversed(names))]
    for _ in range(2 if tier == 'quick' else 6):
        x = list(names)
        rnd.shuffle(x)
        if tuple(x) not in alls:
            alls.append(tuple(x))
    x = list(names)
    rnd.shuffle(x)
    alls.append(tuple(names) + tuple(x))          # everything, twice
    if tier == 'quick':
        for t in singles + doubles + pairs:
            cfgs.append(Config([t, t], 'a', 'O0', 'two-TU'))
        for t in singles:
            cfgs.append(Config([t], 'so', 'O0', 'one-TU'))
        for t in alls:
            for lib in ('a', 'so'):
                cfgs.append(Config([t], lib, 'O0', 'all one-TU'))
                cfgs.append(Config([t, t], lib, 'O0', 'all two-TU'))
        for t in singles + alls[:1]:
            cfgs.append(Config([t], 'a', 'O0-no-posix-macro', 'one-TU, client without _POSIX_C_SOURCE'))
    else:
        for opt in ('O0', 'O2'):
            for lib in ('a', 'so'):
                for t in singles + doubles + pairs + alls:
                    cfgs.append(Config([t], lib, opt, 'one-TU'))
                    cfgs.append(Config([t, t], lib, opt, 'two-TU'))
                # different headers in different TUs, and three TUs
                for i, a in enumerate(names):
                    for b in names[i + 1:]:
                        cfgs.append(Config([(a,), (b,)], lib, opt, 'split pair'))
                cfgs.append(Config([(h,) for h in names], lib, opt, 'one header per TU'))
                cfgs.append(Config([alls[0], alls[1], alls[-1]], lib, opt, 'all three-TU'))
        for t in singles + alls[:2]:
            cfgs.append(Config([t], 'a', 'O0-no-posix-macro', 'one-TU, client without _POSIX_C_SOURCE'))
    seen, res = set(), []
    for c in cfgs:
        if c.ident() not in seen:
            seen.add(c.ident())
            res.append(c)
    return res


# ------------------------------------------------------------------ generated client code

def closure_functions(facts, tu):
    byname = dict((h['name'], h) for h in facts['headers'])
    seen, todo, fns = [], list(tu), []
    while todo:
        x = todo.pop(0)
        if x in seen or x not in byname:
            continue
        seen.append(x)
        todo = list(byname[x]['includes']) + todo
    objs = []
    for x in sorted(seen):
        for n, _ in byname[x]['decls'] + byname[x]['defs']:
            if n in byname[x].get('objects', []):
                if n not in objs:
                    objs.append(n)
            elif n not in fns:
                fns.append(n)
    return fns, objs


def tu_text(facts, tu, role, clash=()):
    o = ['/* generated by checks/c18.py: translation unit %d of a C18 client program.' % role,
         '   It includes the headers below in this order and takes the address of every',
         '   function (and object) they declare or define, so that a missing definition shows up as an',
         '   undefined symbol and every needed archive member is pulled in. */']
    for h in tu:
        o.append('#include "cstl/%s"' % h)
    o.append('typedef void (*c18_fn)(void);')
    o.append('c18_fn const c18_fns_%d[] = {' % role)
    fns, objs = closure_functions(facts, tu)
    for n in fns:
        o.append('    (c18_fn)%s,' % n)
    o.append('    (c18_fn)0')
    o.append('};')
    if objs:
        o.append('const void *const c18_objs_%d[] = {' % role)
        for n in objs:
            o.append('    &%s,' % n)
        o.append('    (const void *)0')
        o.append('};')
    for n in clash:
        o.append('int %s = 1;   /* the client\'s own object */' % n)
    if role == 0:
        o.append('int main(void)')
        o.append('{')
        o.append('    return c18_fns_0[sizeof(c18_fns_0) / sizeof(c18_fns_0[0]) - 1] != (c18_fn)0;')
        o.append('}')
    return '\n'.join(o) + '\n'


# compile variants: name -> extra flags after the project's CFLAGS and -Werror
VARIANTS = {
    'O0': ['-O0'],
    'O2': ['-O2'],
    # a plain C99 client that does not define the feature-test macro the project builds itself with
    'O0-no-posix-macro': ['-O0', '-U_POSIX_C_SOURCE'],
}


class Toolchain:
    def __init__(self, facts, workdir):
        self.facts = facts
        self.dir = workdir
        self.inc = os.path.join(facts['repo'], 'include')
        self.cc = facts['cc']
        self.cflags = list(facts['cflags']) + ['-Werror']
        self.libdir = os.path.dirname(facts['lib_a_path'])
        self.objs = {}
        self.weakres = {}
        self.weaklock = threading.Lock()

    def obj_key(self, tu, role, opt, clash=()):
        return hashlib.sha1(repr((tu, role, opt) + ((clash,) if clash else ())).encode()).hexdigest()[:16]

    def compile_cmd(self, tu, role, opt, clash=()):
        k = self.obj_key(tu, role, opt, clash)
        src = os.path.join(self.dir, 'tu_%s.c' % k)
        obj = os.path.join(self.dir, 'tu_%s.o' % k)
        return src, obj, [self.cc] + self.cflags + VARIANTS[opt] + ['-I', self.inc, '-c', src, '-o', obj]

    def compile(self, job):
        tu, role, opt = job[:3]
        clash = job[3] if len(job) > 3 else ()
        src, obj, cmd = self.compile_cmd(tu, role, opt, clash)
        with open(src, 'w') as f:
            f.write(tu_text(self.facts, tu, role, clash))
        rc, out = sh(cmd)
        weak = []
        if rc == 0:
            # weak undefined references: the header declared the function __attribute__((weak)); such a reference does
            # not pull the defining member out of a static archive
            rc2, nm = sh(['nm', '-u', obj])
            if rc2 == 0:
                weak = sorted(set(l.split()[-1] for l in nm.splitlines() if l.split()[:1] and l.split()[0] in ('w', 'v')
                                  and l.split()[-1].startswith(('cstl_', '__cstl_'))))
        return job, dict(rc=rc, out=out, cmd=' '.join(cmd), src=src, obj=obj, weak=weak)

    def weak_probe(self, name, tu, opt, lib):
        """A client that uses only `name`: does linking against libcstl.<lib> give it a definition?"""
        key = (name, opt, lib)
        with self.weaklock:
            return self._weak_probe(key, name, tu, opt, lib)

    def _weak_probe(self, key, name, tu, opt, lib):
        if key in self.weakres:
            return self.weakres[key]
        k = hashlib.sha1(repr(('weak',) + key).encode()).hexdigest()[:16]
        src = os.path.join(self.dir, 'weak_%s.c' % k)
        exe = os.path.join(self.dir, 'weak_%s' % k)
        with open(src, 'w') as f:
            f.write('/* generated by checks/c18.py: a client that uses nothing but %s */\n' % name)
            for h in tu:
                f.write('#include "cstl/%s"\n' % h)
            f.write('typedef void (*c18_fn)(void);\nint main(void)\n{\n    volatile c18_fn f = (c18_fn)%s;\n'
                    '    return f == (c18_fn)0;\n}\n' % name)
        cmd = [self.cc] + self.cflags + VARIANTS[opt] + ['-I', self.inc, src, '-o', exe,
                                                          '-L' + self.libdir, '-l:libcstl.%s' % lib, '-lm']
        rc, out = sh(cmd)
        res = None
        if rc:
            res = dict(cmd=' '.join(cmd), out=out, src=src)
        else:
            rc, out = sh([exe], env=dict(LD_BIND_NOW='1', LD_LIBRARY_PATH=self.libdir), timeout=60)
            try:
                os.unlink(exe)
            except OSError:
                pass
            if rc:
                res = dict(cmd=' '.join(cmd), src=src,
                           out="weak reference to `%s' stays unresolved (null) when a client that uses only this function is "
                               "linked against libcstl.%s: the header declares it weak, and a weak reference neither pulls the "
                               "defining member out of the archive nor makes the shared library needed" % (name, lib))
        self.weakres[key] = res
        return res

    def link_cmd(self, cfg):
        k = hashlib.sha1(repr(cfg.ident()).encode()).hexdigest()[:16]
        exe = os.path.join(self.dir, 'prog_%s' % k)
        objs = [self.compile_cmd(t, i, cfg.opt, cfg.clash if i == 0 else ())[1] for i, t in enumerate(cfg.prog)]
        return exe, [self.cc, '-o', exe] + objs + ['-L' + self.libdir, '-l:libcstl.%s' % cfg.lib, '-lm']

    def link(self, cfg):
        parts = [self.objs[self.job_of(cfg, i, t)] for i, t in enumerate(cfg.prog)]
        bad = [p for p in parts if p['rc'] != 0]
        if bad:
            return cfg, dict(stage='compile', ok=False, out=bad[0]['out'], cmds=[p['cmd'] for p in parts], parts=parts)
        if not self.facts['lib_%s_ok' % cfg.lib]:
            return cfg, dict(stage='not-linked', ok=True, out='', cmds=[p['cmd'] for p in parts], parts=parts)
        exe, cmd = self.link_cmd(cfg)
        rc, out = sh(cmd)
        cmds = [p['cmd'] for p in parts] + [' '.join(cmd)]
        if rc:
            return cfg, dict(stage='link', ok=False, out=out, cmds=cmds, parts=parts)
        run = 'LD_BIND_NOW=1 LD_LIBRARY_PATH=%s %s' % (self.libdir, exe)
        rc, out = sh([exe], env=dict(LD_BIND_NOW='1', LD_LIBRARY_PATH=self.libdir), timeout=60)
        try:
            os.unlink(exe)
        except OSError:
            pass
        if rc:
            return cfg, dict(stage='run', ok=False, out='exit status %d\n%s' % (rc, out), cmds=cmds + [run], parts=parts)
        for p, t in zip(parts, cfg.prog):
            for name in p.get('weak', []):
                w = self.weak_probe(name, t, cfg.opt, cfg.lib)
                if w is not None:
                    return cfg, dict(stage='weak', ok=False, out=w['out'], cmds=cmds + [run, w['cmd']], parts=parts, weak=name)
        return cfg, dict(stage='done', ok=True, out='', cmds=cmds + [run], parts=parts)

    @staticmethod
    def job_of(cfg, i, t):
        return (t, i, cfg.opt, cfg.clash) if (i == 0 and cfg.clash) else (t, i, cfg.opt)

    def run(self, cfgs):
        jobs = []
        for c in cfgs:
            for i, t in enumerate(c.prog):
                j = self.job_of(c, i, t)
                if j not in self.objs:
                    self.objs[j] = None
                    jobs.append(j)
        with ThreadPoolExecutor(max_workers=core.NPROC) as ex:
            for job, r in ex.map(self.compile, jobs):
                self.objs[job] = r
            res = list(ex.map(self.link, cfgs))
        return res, len(jobs)


def failure_keys(r):
    """Stable keys of what went wrong in one configuration."""
    out = r['out']
    keys = []
    if r['stage'] == 'link':
        for m in re.finditer(r"multiple definition of [`'](\w+)'", out):
            keys.append('multiple-definition:' + m.group(1))
        for m in re.finditer(r"undefined reference to [`'](\w+)'", out):
            keys.append('undefined:' + m.group(1))
        if not keys:
            m = re.search(r'(?:ld|collect2)[^\n]*:\s*(.*)', out)
            keys.append('link:' + re.sub(r'\W+', '_', (m.group(1) if m else out.strip().splitlines()[-1] if out.strip() else 'failed'))[:80])
    elif r['stage'] == 'weak':
        keys.append('weak-unresolved:' + r.get('weak', '?'))
    elif r['stage'] == 'compile':
        m = re.search(r'^([^\s:]+):\d+(?::\d+)?: (?:fatal )?error: (.*)$', out, flags=re.M)
        if m:
            msg = re.sub(r'\[-W[^\]]*\]', '', m.group(2))
            keys.append('compile:%s:%s' % (os.path.basename(m.group(1)), re.sub(r'\W+', '_', msg).strip('_')[:80]))
        else:
            keys.append('compile:unknown')
    else:
        keys.append('run:' + re.sub(r'\W+', '_', out.strip().splitlines()[0] if out.strip() else 'failed')[:60])
    res = []
    for k in keys:
        if k not in res:
            res.append(k)
    return res[:6]


def shrink(tc, cfg, key):
    """Greedy minimisation of a failing configuration with the real toolchain:
    drop whole TUs, then single #include lines, while the same key still fails."""
    best, best_r = cfg, None
    budget = 60
    changed = True
    while changed and budget > 0:
        changed = False
        cands = []
        if len(best.prog) > 1:
            for i in range(len(best.prog)):
                cands.append(best.prog[:i] + best.prog[i + 1:])
        for i, t in enumerate(best.prog):
            for j in range(len(t)):
                nt = t[:j] + t[j + 1:]
                if nt:
                    cands.append(best.prog[:i] + (nt,) + best.prog[i + 1:])
        for prog in cands:
            budget -= 1
            c = Config(prog, best.lib, best.opt, 'shrunk from: ' + cfg.desc(), best.clash)
            res, _ = tc.run([c])
            r = res[0][1]
            if not r['ok'] and key in failure_keys(r):
                best, best_r, changed = c, r, True
                break
            if budget <= 0:
                break
    return best, best_r


# ------------------------------------------------------------------ Coq side

def coq_string(s):
    return '"%s"' % s.replace('"', '""')


NCHUNK = 14


def write_verdicts(progs):
    """Verdicts_<i>.v, compiled in parallel; chunk 0 also evaluates the parts of facts_ok.
    -> list of (file, number of programs)"""
    for f in os.listdir(LINK):
        if re.match(r'Verdicts.*\.v$', f):
            os.unlink(os.path.join(LINK, f))
    n = max(1, min(NCHUNK, (len(progs) + 7) // 8))
    chunks = [progs[i::n] for i in range(n)]
    files = []
    for ci, ch in enumerate(chunks):
        o = ['(* GENERATED by checks/c18.py: the model verdict for enumerated programs (chunk %d of %d). Do not commit. *)' % (ci, n),
             'From Coq Require Import List String.', 'From Cstl Require Import LinkSpec.',
             'From CstlLink Require Import LinkFacts.', 'Import ListNotations.',
             'Open Scope string_scope.', 'Open Scope list_scope.', '',
             'Definition progs : list program := [']
        lines = []
        for p in ch:
            lines.append('  [' + '; '.join('[' + '; '.join(coq_string(h) for h in t) + ']' for t in p) + ']')
        o.append(';\n'.join(lines))
        o.append('].')
        if ci == 0:
            o.append('Eval vm_compute in (facts_ok facts).')
            o.append('Eval vm_compute in (nodupb (names (headers facts)), nodupb (all_def_names (headers facts)), '
                     'linkage_consistent (all_syms (headers facts)), nodupb (lib_a facts), nodupb (lib_so facts)).')
            o.append('Eval vm_compute in (map (fun h => (hname h, header_ok facts h)) (headers facts)).')
        o.append('Eval vm_compute in (map (fun p => (valid_prog_b facts p, link_ok_with_b facts (lib_a facts) p, '
                 'link_ok_with_b facts (lib_so facts) p)) progs).')
        name = 'Verdicts_%d.v' % ci
        with open(os.path.join(LINK, name), 'w') as f:
            f.write('\n'.join(o) + '\n')
        files.append((name, len(ch)))
    return files


def parse_verdicts(outs, files, nprogs):
    """outs: coqc output per chunk -> dict(facts_ok, globals, header_ok{}, verdicts[(valid, a, so)] in program order)"""
    res = dict(facts_ok=None, globals=None, header_ok={}, verdicts=[])
    n = len(files)
    per = []
    for ci, out in enumerate(outs):
        blocks = re.split(r'^\s*= ', out, flags=re.M)[1:]
        if ci == 0:
            if len(blocks) < 4:
                return res
            res['facts_ok'] = blocks[0].strip().startswith('true')
            res['globals'] = re.findall(r'\b(true|false)\b', blocks[1].split(':')[0])
            for m in re.finditer(r'\(\s*"([^"]*)"(?:%string)?\s*,\s*(true|false)\s*\)', blocks[2]):
                res['header_ok'][m.group(1)] = m.group(2) == 'true'
            blocks = blocks[3:]
        if len(blocks) != 1:
            return res
        v = [tuple(x == 'true' for x in m.groups())
             for m in re.finditer(r'\(\s*(true|false)\s*,\s*(true|false)\s*,\s*(true|false)\s*\)', blocks[0])]
        if len(v) != files[ci][1]:
            return res
        per.append(v)
    verdicts = [None] * nprogs
    for ci, v in enumerate(per):
        for j, x in enumerate(v):
            verdicts[ci + j * n] = x
    if all(x is not None for x in verdicts):
        res['verdicts'] = verdicts
    return res


def coq_link(progs, tier):
    """Build coq/link against the regenerated facts.
    -> dict(facts_vo, verdicts, proof=dict like core.assumptions(), log)"""
    q = ['-Q', '../theories', 'Cstl', '-Q', '.', 'CstlLink']
    for f in os.listdir(LINK):
        if f.endswith(('.vo', '.vok', '.vos', '.glob')) or f.startswith('.') and f.endswith('.aux'):
            os.unlink(os.path.join(LINK, f))
    res = dict(facts_vo=False, verdicts=None, log='')
    rc, out = sh(['timeout', '600', 'coqc'] + q + ['LinkFacts.v'], cwd=LINK, timeout=700)
    res['log'] += out
    res['facts_vo'] = rc == 0
    src = open(os.path.join(LINK, 'Properties_C18.v')).read()
    src_nc = re.sub(r'\(\*.*?\*\)', '', src, flags=re.S)
    theorems = re.findall(r'^\s*Theorem\s+(\w+)', src_nc, flags=re.M)
    printed_names = re.findall(r'^\s*Print Assumptions\s+(\w+)\s*\.', src_nc, flags=re.M)
    proof = dict(theorems=theorems, printed=[], discharged=0, ok=False, log='', axioms=[],
                 cmd='coqc -Q ../theories Cstl -Q . CstlLink LinkFacts.v Properties_C18.v (in coq/link, after make in coq/ '
                     'and after gen/headers.py regenerated LinkFacts.v)')
    if not res['facts_vo']:
        proof['log'] = out
        res['proof'] = proof
        return res
    files = write_verdicts(progs)
    with ThreadPoolExecutor(max_workers=core.NPROC) as ex:
        fp = ex.submit(sh, ['timeout', '900', 'coqc'] + q + ['Properties_C18.v'], LINK, 1000)
        fvs = [ex.submit(sh, ['timeout', '900', 'coqc'] + q + [name], LINK, 1000) for name, _ in files]
        rvs = [f.result() for f in fvs]
        rcp, outp = fp.result()
    if all(rc == 0 for rc, _ in rvs):
        res['verdicts'] = parse_verdicts([o for _, o in rvs], files, len(progs))
    else:
        res['log'] += ''.join(o[-1500:] for rc, o in rvs if rc)
    proof['log'] = outp
    proof['ok'] = rcp == 0
    blocks = []
    cur = None
    for line in outp.splitlines():
        if line.startswith('Closed under the global context'):
            blocks.append('Closed under the global context')
            cur = None
        elif line.startswith('Axioms:'):
            cur = [line]
            blocks.append(cur)
        elif cur is not None:
            cur.append(line)
    blocks = [b if isinstance(b, str) else '\n'.join(b) for b in blocks]
    for i, n in enumerate(printed_names):
        proof['printed'].append((n, blocks[i] if i < len(blocks) else 'MISSING'))
    ax = set()
    if rcp == 0:
        d = dict(proof['printed'])
        for n in theorems:
            b = d.get(n)
            if b is None:
                continue
            if b.startswith('Closed'):
                proof['discharged'] += 1
                continue
            axs = [a for a in re.findall(r'^([A-Za-z_][\w\.]*)\s*:', b, flags=re.M) if a != 'Axioms']
            if axs and all(a in core.ALLOWED_AXIOMS for a in axs):
                proof['discharged'] += 1
                ax.update(axs)
    proof['axioms'] = sorted(ax)
    if tier == 'thorough' and rcp == 0:
        rc, out = sh(['timeout', '900', 'coqchk', '-silent', '-o'] + q + ['CstlLink.Properties_C18'], cwd=LINK, timeout=1000)
        proof['coqchk'] = 'ok' if rc == 0 else 'FAILED: ' + out[-1500:]
        if rc:
            proof['ok'] = False
    res['proof'] = proof
    return res


# ------------------------------------------------------------------ replay files

def write_replay(path, cfg, r, keys, facts, extra=()):
    with open(path, 'w') as f:
        f.write('# property C18 violated: this client program does not %s\n' % (
            dict(compile='compile', link='link', run='start').get(r['stage'], 'build')))
        f.write('# tree: %s\n' % facts['repo'])
        f.write('# configuration: %s (%s)\n' % (cfg.desc(), cfg.kind))
        f.write('# key: %s\n' % ' '.join(keys))
        for e in extra:
            f.write('# %s\n' % e)
        f.write('# replay: ./check C18 --replay %s\n' % path)
        f.write('#config %s\n' % cfg.to_json())
        f.write('#\n# ---- commands (library built by `make build` in a private copy of the tree: %s)\n' % os.path.dirname(facts['lib_a_path']))
        for c in r['cmds']:
            f.write('$ %s\n' % c)
        f.write('#\n# ---- diagnostics\n')
        for l in r['out'].strip().splitlines()[:60]:
            f.write('#   %s\n' % l)
        for i, p in enumerate(r['parts']):
            f.write('#\n# ---- %s\n' % p['src'])
            try:
                f.write(open(p['src']).read())
            except OSError:
                pass


def read_replay(path):
    cfgs = []
    for line in open(path):
        if line.startswith('#config '):
            d = json.loads(line[len('#config '):])
            cfgs.append(Config(d['prog'], d['lib'], d.get('opt', 'O0'), d.get('kind', 'replay'), d.get('clash', ())))
    return cfgs


# ------------------------------------------------------------------ main

def main(tier, seed, replay=None):
    t0 = time.time()
    notes = []
    os.makedirs(WORK, exist_ok=True)
    os.makedirs(LINK, exist_ok=True)
    timing = {}

    # 1. translator
    facts = translator.extract(core.REPO, WORK, os.path.join(LINK, 'LinkFacts.v'), os.path.join(WORK, 'facts.json'))
    timing['translator_s'] = round(time.time() - t0, 2)
    names = [h['name'] for h in facts['headers']]
    for n in facts['notes']:
        notes.append('translator: ' + n)

    # 2. configurations
    if replay:
        cfgs = read_replay(replay)
    else:
        cfgs = enumerate_configs(names, tier, seed)
        # namespace: every external symbol of the static library outside cstl_ / __cstl_ is a name a client may use itself
        foreign = sorted(set(n for n in facts['lib_a'] if not n.startswith(('cstl_', '__cstl_'))))
        for n in foreign[:8]:
            cfgs.append(Config([tuple(names)], 'a', 'O0', 'client with an object of its own named %s' % n, clash=(n,)))
        if foreign:
            notes.append('libcstl.a exports symbols outside the cstl_ namespace: %s' % ', '.join(foreign[:20]))
    progs = []
    for c in cfgs:
        if c.prog not in progs:
            progs.append(c.prog)
    pidx = dict((p, i) for i, p in enumerate(progs))

    # 3. Coq (shared theories, then coq/link) and the toolchain, concurrently
    cfgdir = os.path.join(WORK, 'cfg')
    shutil.rmtree(cfgdir, ignore_errors=True)
    os.makedirs(cfgdir)
    tc = Toolchain(facts, cfgdir)

    def coq_side():
        t = time.time()
        ok_build, log = core.coq_build()
        r = coq_link(progs, tier)
        r['theories_ok'] = ok_build and all(core.coq_vo_ok(n) for n in ('LinkSpec', 'LinkProofs', 'FindingsLink'))
        r['theories_log'] = log[-3000:] if not r['theories_ok'] else ''
        timing['coq_s'] = round(time.time() - t, 2)
        return r

    def c_side():
        t = time.time()
        r = tc.run(cfgs)
        timing['toolchain_s'] = round(time.time() - t, 2)
        return r

    with ThreadPoolExecutor(max_workers=2) as ex:
        fc = ex.submit(coq_side)
        ft = ex.submit(c_side)
        coq = fc.result()
        results, nobjs = ft.result()
    proof = coq['proof']
    bad = core.hygiene()
    verd = coq['verdicts'] or dict(facts_ok=None, globals=None, header_ok={}, verdicts=[])
    proof_ok = (coq['theories_ok'] and coq['facts_vo'] and proof['ok'] and len(proof['theorems']) > 0
                and proof['discharged'] == len(proof['theorems']) and not bad)
    if not proof_ok:
        notes.append('proof audit failed: theories_ok=%s LinkFacts.vo=%s Properties_C18.vo=%s discharged=%d/%d hygiene=%s facts_ok=%s' % (
            coq['theories_ok'], coq['facts_vo'], proof['ok'], proof['discharged'], len(proof['theorems']), bad, verd['facts_ok']))
    if facts['crosscheck_failures']:
        notes += ['translator cross-check: ' + x for x in facts['crosscheck_failures']]
    if not facts['lib_ok']:
        notes.append('library build failed in the private copy: ' + facts['lib_log'][-600:])
    if verd['facts_ok'] is not None and verd['facts_ok'] != proof['ok'] and coq['theories_ok']:
        notes.append('inconsistent: Eval facts_ok = %s but Properties_C18.v %s' % (verd['facts_ok'], 'compiles' if proof['ok'] else 'does not compile'))

    # 4. compare model and toolchain
    stats = dict(agree_ok=0, agree_fail=0, model_stricter=0, model_unsound=0, no_verdict=0, not_linked=0)
    failing = {}      # key -> list of (cfg, result)
    stricter = []
    for cfg, r in results:
        v = verd['verdicts'][pidx[cfg.prog]] if verd['verdicts'] else None
        mv = None if v is None else (v[0] and (v[1] if cfg.lib == 'a' else v[2]))
        if r['stage'] == 'not-linked':
            stats['not_linked'] += 1
        elif mv is None:
            stats['no_verdict'] += 1
        elif mv and r['ok']:
            stats['agree_ok'] += 1
        elif not mv and not r['ok']:
            stats['agree_fail'] += 1
        elif mv and not r['ok']:
            stats['model_unsound'] += 1
        else:
            stats['model_stricter'] += 1
            stricter.append(cfg.desc())
        if not r['ok']:
            for k in failure_keys(r):
                failing.setdefault(k, []).append((cfg, r))

    # 5. report
    known = dict(core.load_known(PID))
    violations, known_hits = [], []
    nrep = 0
    covered = set()
    for key in sorted(failing, key=lambda k: (min(c.size() for c, _ in failing[k]), k)):
        hits = failing[key]
        if key in covered:
            continue
        if key in known:
            known_hits.append((key, known[key], len(hits)))
            continue
        if nrep >= 8:
            notes.append('further failing key not written out: %s (%d configurations)' % (key, len(hits)))
            continue
        cfg, r = min(hits, key=lambda h: h[0].size())
        v = verd['verdicts'][pidx[cfg.prog]] if verd['verdicts'] else None
        extra = ['%d of %d configurations fail with this key; smallest enumerated: %s' % (len(hits), len(cfgs), cfg.desc()),
                 'model verdict for the enumerated program (valid, link_ok .a, link_ok .so): %s; facts_ok = %s' % (v, verd['facts_ok'])]
        scfg, sr = shrink(tc, cfg, key)
        if sr is not None:
            cfg, r = scfg, sr
        rp = core.replay_path(PID, nrep)
        nrep += 1
        if not proof_ok:
            extra.append('the theorems of coq/link/Properties_C18.v do NOT check against the regenerated facts')
            extra += ['header_ok %s = false' % h for h, ok in sorted(verd['header_ok'].items()) if not ok]
        write_replay(rp, cfg, r, failure_keys(r), facts, extra)
        covered.update(failure_keys(r))
        key = ' '.join(failure_keys(r)) if key in failure_keys(r) else key
        first = r['out'].strip().splitlines()
        tail = key.split(':')[-1]
        cand = [l for l in first if 'error' in l or 'multiple definition' in l or 'undefined reference' in l]
        msg = next((l for l in cand if tail in l and ('`%s' % tail in l or "'%s" % tail in l)), cand[0] if cand else (first[0] if first else ''))
        violations.append((rp, '%s: %s [%s]' % (key, msg.strip()[:200], cfg.desc()), True))
    if not facts['lib_ok']:
        key = 'library-build-failed'
        if key in known:
            known_hits.append((key, known[key], 1))
        else:
            rp = core.replay_path(PID, nrep)
            nrep += 1
            with open(rp, 'w') as f:
                f.write('# property C18 violated: the library that client programs link against cannot be built\n')
                f.write('# tree: %s (copied to %s)\n# key: %s\n' % (facts['repo'], os.path.dirname(os.path.dirname(facts['lib_a_path'])), key))
                f.write('# replay: ./check C18   (the library is rebuilt on every run)\n')
                f.write('$ make -C %s build\n# ---- output\n' % os.path.dirname(os.path.dirname(facts['lib_a_path'])))
                for l in facts['lib_log'].strip().splitlines()[-60:]:
                    f.write('#   %s\n' % l)
            err = next((l for l in facts['lib_log'].splitlines() if 'multiple definition' in l or 'undefined reference' in l or 'error:' in l), 'make build failed')
            violations.append((rp, '%s: %s' % (key, err.strip()[:200]), True))

    if (not proof_ok or facts['crosscheck_failures']) and not violations and not known_hits:
        rp = core.replay_path(PID, nrep)
        nrep += 1
        with open(rp, 'w') as f:
            f.write('# proof obligations of coq/link/Properties_C18.v (or the translator cross-checks) no longer check against\n'
                    '# the facts regenerated from %s, and none of the %d enumerated client programs fails to build\n' % (facts['repo'], len(cfgs)))
            for n in notes:
                f.write('# %s\n' % n)
            f.write('# facts_ok = %s; [names nodup, definitions nodup, linkage consistent, lib_a nodup, lib_so nodup] = %s\n' % (verd['facts_ok'], verd['globals']))
            for h, ok in sorted(verd['header_ok'].items()):
                if not ok:
                    hd = next(x for x in facts['headers'] if x['name'] == h)
                    f.write('# header_ok %s = false: guarded=%s compiles_alone=%s includes=%s external definitions=%s\n' % (
                        h, hd['guarded'], hd['compiles_alone'], hd['includes'], [n for n, e in hd['defs'] if e]))
                    f.write('#   external prototypes missing from libcstl.a: %s\n' % [n for n, e in hd['decls'] if e and n not in facts['lib_a']])
                    f.write('#   external prototypes missing from libcstl.so: %s\n' % [n for n, e in hd['decls'] if e and n not in facts['lib_so']])
                    f.write('#   static prototypes without a body: %s\n' % [n for n, e in hd['decls'] if not e and [n, False] not in hd['defs'] and (n, False) not in hd['defs']])
                    if not hd['compiles_alone']:
                        f.write('#   $ %s\n' % hd['compile_cmd'])
                        for l in hd['diagnostics'].strip().splitlines()[:20]:
                            f.write('#     %s\n' % l)
            f.write('# ---- coqc Properties_C18.v\n')
            for l in proof['log'].strip().splitlines()[-30:]:
                f.write('#   %s\n' % l)
            if coq['log'].strip():
                f.write('# ---- coqc LinkFacts.v / Verdicts.v\n')
                for l in coq['log'].strip().splitlines()[-30:]:
                    f.write('#   %s\n' % l)
            if coq.get('theories_log'):
                f.write('# ---- make in coq/\n')
                for l in coq['theories_log'].strip().splitlines()[-30:]:
                    f.write('#   %s\n' % l)
        violations.append((rp, 'theorems of Properties_C18.v / translator cross-checks do not check', False))

    for key, text, n in known_hits:
        print('KNOWN-FINDING: property=%s %s (key=%s, %d configurations)' % (PID, text, key, n))
    for rp, msg, found in violations:
        print('# %s' % msg)
        print('VIOLATION property=%s replay=%s%s' % (PID, rp, '' if found else ' no-failing-input-found'))

    # 6. evidence
    nontrivial = set(c.ident() for c, _ in results if sum(len(t) for t in c.prog) > 1)
    kinds = {}
    for c in cfgs:
        k = '%s/%s/%s' % (c.kind, c.lib, c.opt)
        kinds[k] = kinds.get(k, 0) + 1

    def sample(c):
        r = next(rr for cc, rr in results if cc is c)
        return dict(config=c.desc(), kind=c.kind, ok=r['ok'], stage=r['stage'], commands=r['cmds'])
    picks = [cfgs[0], cfgs[len(cfgs) // 2], cfgs[-1]] if cfgs else []
    cov = dict(
        obligations=len(proof['theorems']), discharged=proof['discharged'] if proof_ok or proof['ok'] else 0,
        theorems=proof['theorems'], checker_cmd=proof['cmd'],
        print_assumptions=['%s: %s' % (n, b) for n, b in proof['printed']],
        hygiene_hits=bad,
        evaluations=len(results), distinct_nontrivial=len(nontrivial), programs=len(progs),
        objects_compiled=nobjs,
        exhaustive=(replay is None and tier == 'thorough'),
        rule='one evaluation = one configuration (program, library .a/.so, -O level): every TU generated, compiled with the '
             'project CFLAGS + -Werror, linked, started. Enumerated: each public header alone, each header twice in a row, every '
             'ordered pair, all headers in several orders (and all twice), each as one TU and as two identical TUs; thorough '
             'adds -O2, .so for everything, different headers in different TUs, one header per TU, three TUs. Distinct = '
             'distinct (program, library, optimisation); non-trivial = more than one #include line in the whole program '
             '(everything except a single header in a single TU)',
        configurations_by_kind=kinds,
        model_vs_toolchain=stats,
        disagreements_checked=stats['model_unsound'] + stats['model_stricter'],
        model_stricter_examples=stricter[:5],
        facts=dict(headers=len(names), declared=sum(len(h['decls']) for h in facts['headers']),
                   defined=sum(len(h['defs']) for h in facts['headers']),
                   lib_a_symbols=len(facts['lib_a']), lib_so_symbols=len(facts['lib_so']),
                   library_sources=facts['libsrcs'], cflags=facts['cflags'], cflags_source=facts['cflags_source'],
                   facts_ok=verd['facts_ok'], header_ok=verd['header_ok'],
                   crosschecks=facts['crosschecks'], crosscheck_failures=facts['crosscheck_failures']),
        samples=[sample(c) for c in picks],
        failing_keys={k: len(v) for k, v in failing.items()},
        known_findings_hit=[k for k, _, _ in known_hits],
        timing=timing, notes=notes,
        trusted_base=[
            'Coq 8.16.1 kernel (coqc, vm_compute); no native_compute' + ('; coqchk: %s' % proof['coqchk'] if 'coqchk' in proof else ''),
            'axioms per Print Assumptions: %s' % (', '.join(proof['axioms']) if proof['axioms'] else 'none (closed under the global context)'),
            'the link model LinkSpec.v (what preprocessing, compiling one TU and linking mean in terms of the facts)',
            'the translator gen/headers.py (facts = gcc -aux-info, cross-checked against its own scanner over gcc -E, nm of '
            'header-only and address-taking TUs, gcc -MM, gcc -H); gcc 12, binutils nm/ar/ld, GNU make',
            'checks/c18.py (configuration enumeration, generated clients, comparison)',
        ],
    )
    ev = dict(property_id=PID, tier=tier, seed=seed, level='proof', coverage=cov, assumptions=ASSUMPTIONS,
              wall_s=round(time.time() - t0, 2), violations=len(violations))
    core.write_evidence(PID, ev)
    return 1 if violations else 0
