"""C16 - allocation failure never corrupts a container.
Aggregates every allocating component: for each base script, every single
allocation failing, every suffix failing, every pair (triples for short
scripts), continued use and a final leak audit."""
import importlib
import itertools
import os
import re
from lib import engine, core
from lib.core import Case


def count_requests(model_lines):
    """number of allocation requests (malloc / realloc with size>0) in a model trace:
    events ';; ; code ...' with code 1,2 (malloc ok/fail) or 3,4 (realloc ok/fail)"""
    n = 0
    for line in model_lines:
        if ';;' not in line:
            continue
        ev = line.split(';;', 1)[1]
        for e in ev.split(';'):
            w = e.split()
            if w and w[0] in ('1', '2', '3', '4'):
                n += 1
    return n


def fault_variants(base, n, tier):
    out = []
    for i in range(n):
        out.append(('s%d' % i, ['fail %d' % i]))
        out.append(('f%d' % i, ['failfrom %d' % i]))
    pairs = list(itertools.combinations(range(n), 2))
    if tier == 'quick' and len(pairs) > 60:
        pairs = pairs[:: max(1, len(pairs) // 60)]
    for i, j in pairs:
        out.append(('p%d_%d' % (i, j), ['fail %d %d' % (i, j)]))
    if n <= 6:
        for t in itertools.combinations(range(n), 3):
            out.append(('t' + '_'.join(map(str, t)), ['fail ' + ' '.join(map(str, t))]))
    return [Case('%s_%s' % (base.name, tag), [h for h in base.header if h.split()[0] not in ('fail', 'failfrom')] + hdr,
                 base.ops, 'fault') for tag, hdr in out]


class FaultPart:
    """wraps a component Spec: cases = fault variants of its base scripts"""

    def __init__(self, spec, base_fn):
        self.spec = spec
        self.base_fn = base_fn
        for a in ('component', 'driver', 'lib_srcs', 'driver_extra', 'header_words'):
            setattr(self, a, getattr(spec, a))
        self.extra_models = getattr(spec, 'extra_models', ())
        self.pid = 'C16'
        self.nbase = 0
        self.nreq = 0

    def corpus(self):
        d = os.path.join(core.ROOT, 'corpus', 'C16', self.component)
        cases = []
        if os.path.isdir(d):
            for f in sorted(os.listdir(d)):
                cs = core.parse_script(open(os.path.join(d, f)).read(), origin='corpus')
                core.split_header(cs, self.header_words)
                cases += cs
        return cases

    def closure(self, tier):
        return [], {}

    def random_cases(self, tier, seed):
        bases = self.base_fn(tier, seed)
        for i, b in enumerate(bases):
            b.name = 'b%d' % i
        work = os.path.join(core.BUILD, 'work', 'C16', self.component)
        model = core.run_sharded(core.runner_cmd(self.component), bases, work, 'b')
        out = []
        for b in bases:
            n = count_requests(model.get(b.name, []))
            self.nbase += 1
            self.nreq += n
            out.append(b)
            out += fault_variants(b, n, tier)
        return out

    def oracle(self, case, impl):
        r = self.spec.oracle(case, impl)
        return r

    def nontrivial(self, case, model):
        return len(model) >= 2


def make_parts():
    parts = []
    for modname in ('checks.c08', 'checks.c09', 'checks.c10', 'checks.c03', 'checks.c05', 'checks.c14'):
        try:
            mod = importlib.import_module(modname)
        except Exception:
            continue
        if hasattr(mod, 'c16_spec') and hasattr(mod, 'c16_base_cases'):
            parts.append(FaultPart(mod.c16_spec(), mod.c16_base_cases))
    return parts


def main(tier, seed, replay):
    parts = make_parts()
    if not parts:
        print('C16: no allocating component available')
        return 2

    class Main(engine.Spec):
        pid = 'C16'
        component = parts[0].component
        driver = parts[0].driver
        rule = ('per allocating component: base scripts (allocating operations, continued use, cleanup, leak audit) x '
                '{no failure, each single request failing, each suffix failing, each pair (sampled in the quick tier when '
                'more than 60), each triple when the script has at most 6 requests}; enumerated, not sampled; '
                'non-trivial = at least two completed operations')
        trusted = ['malloc/realloc/free interception by harness/halloc.h (same policy as AllocModel.v); '
                   'per-component models as in C03/C05/C08/C09/C10/C14']
        assumptions_text = ['components present in this run: ' + ', '.join(p.component for p in parts)]
    rc = engine.check_parts('C16', parts, tier, seed, replay, main=Main())
    return rc


_MANIFEST = dict(
    text='Coq theorems (Properties_C16.v): the per-component theorems are stated for every allocator oracle; the failure '
         'corollaries (map insert -1 and unchanged, reserve/shrink/hash resize quiet no-ops, growth aborts, smart-pointer and '
         'array allocation leave the object empty, no leak / double free in any failing history) are collected there. Tied to '
         'the code by enumerating every single/suffix/pair(/triple) of failing allocation requests over base scripts of every '
         'allocating component, model vs ASan/UBSan driver with intercepted malloc/realloc/free.',
    note='trusted: Coq kernel; hand-written models validated by the correspondence run; allocator interception (halloc.h) '
         'implements the same policy as AllocModel.v; components covered are listed in evidence (assumptions)',
    technique='Coq proof for all allocator oracles + enumerated fault injection, model/code differential correspondence',
    design='6 (C16)')

MANIFEST = _MANIFEST if os.path.exists(os.path.join(core.COQ, 'theories', 'Properties_C16.v')) else None
