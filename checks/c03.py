"""C03 - hash lookups stay exact while the table is incrementally rehashed."""
from checks import hash_common as hc


class C03(hc.HashSpec):
    pid = 'C03'
    prop = 'C03'

    def oracle(self, case, impl):
        return hc.oracle('C03', case, impl)


SPEC = C03()


# ---- exports for the C16 aggregator (allocation failure never corrupts a container)
class C16Hash(hc.HashSpec):
    pid = 'C16'
    prop = 'C16'

    def oracle(self, case, impl):
        return hc.oracle('C16', case, impl)


def c16_base_cases(tier, seed):
    return hc.c16_base_cases(tier, seed)


def c16_spec():
    return C16Hash()

MANIFEST = dict(
    text='Coq theorems (Properties_C03.v) over an executable transcription of src/hash.c (HashModel.v): for every operation '
         'sequence, every in-range hash function and every allocator behaviour the table invariant hash_inv (A.1: clean buckets '
         'hold nodes at their pending index, dirty ones at the old or the pending index, every live node in exactly one bucket) '
         'is preserved; after the bucket lookup of a key all live elements with that key are in the returned bucket, find offers '
         'each at most once and returns the first accepted one, erase removes exactly the object passed, size is exact, and every '
         'call refines a bag of element ids across resize/rehash/shrink_to_fit/swap. The model is tied to the C code on every run by '
         'differential execution (budgeted breadth-first exploration of the model + seeded random histories, full table dumps, '
         'hash-call logs, allocator events) under ASan/UBSan; an independent membership oracle keyed by element id searches for a '
         'failing input.',
    note='trusted: Coq kernel; hand transcription of hash.c into HashModel.v validated only by the correspondence run; extraction '
         '(ExtrOcamlBasic) + OCaml runner; C driver; hash functions assumed pure and in range for these theorems',
    technique='Coq proof (inductive invariant + refinement to a bag by induction over operations) + model/code differential correspondence',
    design='6 (C03), appendix A.1')
