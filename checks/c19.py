"""C19 - rehash is incremental, finishes in bounded operations, lands where requested."""
from checks import hash_common as hc


class C19(hc.HashSpec):
    pid = 'C19'
    prop = 'C19'

    def oracle(self, case, impl):
        return hc.oracle('C19', case, impl)


SPEC = C19()

MANIFEST = dict(
    text='Coq theorems (Properties_C19.v) over the executable transcription of src/hash.c with a work log (hash-function calls '
         'with arguments, relocated buckets): after every satisfiable resize(n, f), also one issued while another is pending, the '
         'geometry the table is heading for is (n, f or the function in force), so load = size/n; a keyed operation during a pending '
         'rehash relocates at most three buckets and advances the sweep index by at least one or completes the rehash; at most '
         '`count` keyed operations complete it; with no rehash pending a lookup calls the hash function exactly once with the '
         'requested size and function. The pre-fix resize is refuted (FindingsHash.v: F4). Tie to the C code: differential '
         'execution comparing load (bit pattern), per-operation hash-call logs and cleaned-bucket counts derived from table dumps.',
    note='trusted: Coq kernel; hand transcription of hash.c into HashModel.v validated only by the correspondence run; calls of the '
         'built-in cstl_hash_mul installed by the library itself are not observable without hooks; float division of load is '
         'checked by the driver/oracle on the bit pattern, not in Coq',
    technique='Coq proof (invariant + variant for the sweep) + refutation witness for the code as found + differential correspondence',
    design='6 (C19), 7 (F4)')
