"""C15 - clear hands over each element exactly once and never touches it again.
Aggregates the containers' components: for every state of each component's
small-scope closure, `clear` with a callback that poisons and frees the element
(ASan), then a refill that proves the container is reusable."""
import importlib
from lib import engine
from lib.core import Case


def clear_cases(spec, tier, refill):
    """take the component's closure cases ending in `clear ...`, append refill ops"""
    cases, st = spec.closure_for_clear(tier) if hasattr(spec, 'closure_for_clear') else spec.closure(tier)
    out = []
    for c in cases:
        if not c.ops or not c.ops[-1].split()[0].startswith('clear'):
            continue
        out.append(Case(c.name, c.header, c.ops + refill(c), 'closure'))
    return out, st


def clear_all(c):
    n = 1
    for h in c.header:
        w = h.split()
        if w[0] == 'nlists':
            n = int(w[1])
    return ['clear %d' % i for i in range(n)]


def make_parts():
    parts = []
    # singly-linked list
    from checks.c13 import C13

    class SListClear(C13):
        pid = 'C15'

        def corpus(self):
            return []

        def closure(self, tier):
            def refill(c):
                l = c.ops[-1].split()[1]
                # element ids 8..10 are outside every closure pool, hence never linked
                return ['push_back %s 8' % l, 'push_front %s 9' % l, 'push_back %s 10' % l, 'foreach %s 0' % l,
                        'size %s' % l, 'clear %s' % l, 'pop_front %s' % l]
            return clear_cases(C13(), tier, refill)

        def random_cases(self, tier, seed):
            cs = C13.random_cases(self, tier, seed)
            out = []
            for c in cs[: (100 if tier == 'quick' else 1500)]:
                out.append(Case(c.name, c.header, c.ops + clear_all(c) + ['push_back 0 0', 'push_back 0 1', 'size 0', 'clear 0'], 'random'))
            return out
    parts.append(SListClear())
    # doubly-linked list
    try:
        from checks.c12 import C12

        class DListClear(C12):
            pid = 'C15'

            def corpus(self):
                return []

            def closure(self, tier):
                def refill(c):
                    l = c.ops[-1].split()[1]
                    return ['push_back %s 8' % l, 'push_front %s 9' % l, 'push_back %s 10' % l, 'size %s' % l,
                            'pop_back %s' % l, 'clear %s' % l, 'pop_front %s' % l]
                return clear_cases(C12(), tier, refill)

            def random_cases(self, tier, seed):
                cs = C12.random_cases(self, tier, seed)
                return [Case(c.name, c.header, c.ops + clear_all(c) + ['push_back 0 0', 'push_front 0 1', 'size 0', 'clear 0'],
                             'random') for c in cs[: (100 if tier == 'quick' else 1500)]]
        parts.append(DListClear())
    except ImportError:
        pass
    # binary tree and red-black tree
    try:
        from checks.c01 import C01
        from checks.treelib import deep_cases as T_deep

        class TreeClear(C01):
            pid = 'C15'

            def corpus(self):
                return []

            def closure(self, tier):
                def refill(c):
                    return ['insert 0', 'insert 1', 'inserth 2', 'size', 'foreach fwd 0', 'clear', 'size', 'insert 1']
                return clear_cases(C01(), tier, refill)

            def random_cases(self, tier, seed):
                cs = C01.random_cases(self, tier, seed)
                out = [Case(c.name, c.header, c.ops + ['clear', 'size', 'insert 0', 'insert 1', 'clear'], 'random')
                       for c in cs[: (100 if tier == 'quick' else 800)]]
                out += T_deep()
                return out
        parts.append(TreeClear())
    except ImportError:
        pass
    # heap
    try:
        from checks.c07 import C07

        class HeapClear(C07):
            pid = 'C15'

            def corpus(self):
                return []

            def closure(self, tier):
                def refill(c):
                    return ['push 0', 'push 1', 'push 2', 'size', 'pop', 'clear', 'pop', 'push 1']
                return clear_cases(C07(), tier, refill)

            def random_cases(self, tier, seed):
                cs = C07.random_cases(self, tier, seed)
                return [Case(c.name, c.header, c.ops + ['clear', 'size', 'push 0', 'push 1', 'pop', 'clear'], 'random')
                        for c in cs[: (60 if tier == 'quick' else 600)]]
        parts.append(HeapClear())
    except ImportError:
        pass
    for modname, fn in (('checks.c08', 'c15_part'),):
        try:
            mod = importlib.import_module(modname)
        except Exception:
            continue
        f = getattr(mod, fn, None)
        if f:
            r = f(clear_cases)
            parts += r if isinstance(r, list) else [r]
    return parts


def main(tier, seed, replay):
    parts = make_parts()
    main_spec = parts[0]
    main_spec.rule = ('per container: every closure case of the component that ends in clear (callback poisons+frees the '
                      'element under ASan), extended by a refill; plus random histories ending in clear+refill; '
                      'non-trivial = at least two completed operations')
    main_spec.trusted = ['modelled, not verified: hand transcriptions of slist.c/dlist.c/bintree.c/rbtree.c/heap.c/map.c; '
                         '"never touches it again" is proved on the models\' event view and checked on the C code by '
                         'freeing the element inside the callback under AddressSanitizer']
    main_spec.assumptions_text = ['components present in this run: ' + ', '.join(p.component for p in parts)]
    return engine.check_parts('C15', parts, tier, seed, replay, main=main_spec)


MANIFEST = dict(
    text='Coq theorems (Properties_C15.v) per container: in every reachable state clear calls back exactly the contained '
         'elements once each, the event view has no access to an element after its callback, and the container is '
         're-initialised (all other theorems apply again). Tied to the code by differential execution of every small-scope '
         'state x clear + refill with a callback that frees the element under ASan.',
    note='trusted: Coq kernel; hand-written models validated by the correspondence run; ASan for use-after-callback on explored states; '
         'containers covered are listed in evidence (assumptions)',
    technique='Coq proof (per-container clear lemmas lifted to reachable states) + model/code differential correspondence under ASan',
    design='6 (C15)')
