"""C02 - red-black rules after every insert and erase; height bound."""
import random
from lib.engine import Spec
from lib.core import Case
from checks import treelib as T


class C02(Spec):
    pid = 'C02'
    component = 'tree'
    extra_models = ('treel',)   # pointer-level model (TreeLinksModel.v): must print the same trace
    driver = 'tree'
    lib_srcs = ['bintree.c', 'rbtree.c']
    header_words = ('keys', 'kind', 'cmpmode', 'vsign', 'swapobj', 'nestwalk')

    def more_variants(self, cases, tier, seed):
        return T.swap_variants(cases, seed, every=3)
    rule = ('cases = corpus + one case per edge of the breadth-first closure of the Coq model of the red-black tree '
            '(all shapes and colourings reachable with 7 elements, keys 0 0 1 1 2 2 3 and 3 1 0 2 1 3 0, in the quick tier; '
            'in addition 8 elements with duplicate and with distinct keys and 6 equal keys in the thorough tier; insert with '
            'and without hint, erase by key, height) + seeded random histories (up to ~60 '
            'nodes in the quick tier, ~250 in the thorough tier, few distinct keys, ascending/descending/zigzag fills, '
            'fill-and-drain); a case is non-trivial when its model trace has at least two completed operations; '
            'distinct = distinct (header, operations) text')
    trusted = ['modelled, not verified: cstl_rbtree_insert / __cstl_rbtree_erase and their fix-up functions are transcribed '
               'by hand into TreeModel.v (zipper contexts instead of parent pointers, the stack stand-in of '
               '__cstl_rbtree_erase is the empty subtree at the hole); comparison callbacks are modelled as key projections',
               'parent links: proved on the pointer-level model TreeLinksModel.v (C02_parent_links, C02_links_run_refines: it simulates the zipper model), which runs next to the zipper model and the C code on every case; on the C code itself they are checked by the driver decoder at every state']
    assumptions_text = ['an element is linked into the tree at most once (documented precondition)',
                        'the comparison function is a total preorder given by an integer key']

    def oracle(self, case, impl):
        keys, kind = T.keys_of(case)
        if kind != 'rb':
            return None
        held = set()
        tree = None
        for i, op in enumerate(case.ops):
            w = op.split()
            name = w[0]
            if name in ('insert', 'inserth') and int(w[1]) in held:
                return None
            if i >= len(impl):
                return ('%s:no-output' % name, 'no output for operation %d (%s)' % (i, op))
            line = impl[i]
            if not line.startswith('ok'):
                if line.startswith('precond'):
                    return None
                return ('%s:%s' % (name, line.split()[0]),
                        'operation %d (%s) ended in %s; expected normal return' % (i, op, line))
            try:
                out, size, ntree, bad = T.parse_line(line)
            except Exception as ex:
                return ('%s:garbled' % name, 'unparsable line %r (%s)' % (line, ex))
            where = 'operation %d (%s)' % (i, op)
            if bad:
                return ('%s:parent-links' % name, 'after %s: %s' % (where, ' '.join(bad)))
            r = T.rb_rules(ntree)
            if r:
                return ('%s:%s' % (name, r[0]), 'after %s: %s' % (where, r[1]))
            n = len(T.inorder(ntree))
            mn, mx = T.height(ntree)
            if 2 ** mx > (n + 1) ** 2:
                return ('%s:height-bound' % name, 'after %s: longest path %d with %d elements exceeds 2*log2(n+1)' % (where, mx, n))
            if name == 'height' and (len(out) != 2 or 2 ** out[1] > (size + 1) ** 2 or out[1] != mx):
                return ('height:wrong', '%s reported %s; decoded tree has longest path %d, %d elements' % (where, out, mx, n))
            if name in ('insert', 'inserth'):
                held.add(int(w[1]))
            elif name == 'erase' and out and out[0] != -1:
                held.discard(out[0])
            elif name == 'clear':
                held = set()
            tree = ntree
        return None

    def closure(self, tier):
        # (keys, also with cmpmode 1)
        scopes = [([0, 0, 1, 1, 2, 2, 3], True), ([3, 1, 0, 2, 1, 3, 0], True)]
        if tier != 'quick':
            scopes += [([0, 0, 1, 1, 2, 2, 3, 3], False), ([0, 0, 0, 0, 0, 0], False),
                       ([0, 1, 2, 3, 4, 5, 6, 7], False)]
        cases, tot = [], dict(states=0, transitions=0, closed=True)
        for keys, both in scopes:
            cs, st = self.bfs(['rb', 3000000, 'rb'] + keys)
            cases += T.with_cmpmodes(cs) if both else cs
            tot['states'] += st.get('states', 0)
            tot['transitions'] += st.get('transitions', 0)
            tot['closed'] = tot['closed'] and st.get('closed', False)
        return cases, tot

    def random_cases(self, tier, seed):
        rnd = random.Random(seed * 104729 + 202)
        n = 300 if tier == 'quick' else 1500
        cases = []
        for ci in range(n):
            if ci % 2 == 0:
                # fill, then drain by erasing held keys in random order: 10-40 nodes, distinct or duplicate keys
                target = rnd.randrange(10, 41)
                length = rnd.choice([2, 3]) * target + 10
                nkeys = rnd.choice([2, 4, 8, 1000, 1000])
                pattern = rnd.choice(['grow-drain', 'grow-drain', 'asc', 'desc', 'zigzag'])
            elif tier == 'quick':
                target = rnd.choice([4, 8, 12, 20, 30, 45, 60])
                length = rnd.choice([30, 60, 120, 180])
                nkeys = rnd.choice([1, 2, 3, 5, 8, 16, 40, 1000])
                pattern = None
            else:
                target = rnd.choice([8, 20, 45, 60, 100, 200, 245])
                length = rnd.choice([60, 150, 300, 500])
                nkeys = rnd.choice([1, 2, 3, 5, 8, 16, 40, 1000])
                pattern = None
            cases.append(T.random_history(rnd, 'rb', 'rnd%d' % ci, target, length, nkeys,
                                          readers=(ci % 4 == 1), pattern=pattern))
        return cases


SPEC = C02()

MANIFEST = dict(
    text='Coq theorems (Properties_C02.v) over an executable model of cstl_rbtree_insert / __cstl_rbtree_erase and their '
         'fix-up loops as coded (zipper contexts for the parent-pointer walks): the red-black rules (root black, no red '
         'node with a red child, equal black height) are preserved by every insert and every erase from every tree that '
         'satisfies them, hence hold in every reachable state; none of the unchecked dereferences of the fix-up code can '
         'fault; height <= 2*log2(size+1) in the form 2^height <= (size+1)^2. The model is tied to the C code on every '
         'run by differential execution (closure over all reachable shapes/colourings in a small scope + seeded random '
         'histories) under ASan/UBSan, comparing shape, colours and every parent pointer after every operation.',
    note='trusted: Coq kernel; hand transcription of rbtree.c/bintree.c into TreeModel.v validated only by the correspondence '
         'run; extraction (ExtrOcamlBasic) + OCaml runner; C driver and its decoder; comparison callbacks modelled as key '
         'projections; the pointer-level model (parent pointers, every link write of rotate/erase/fix-ups in source order, stack stand-in node) is a hand transcription too, proved to simulate the zipper model and to keep every child\'s parent link consistent, and tied to the C code by the same differential run',
    technique='Coq proof (zipper invariants: one red-red violation at x / hole one black short; induction over operations) '
              '+ model/code differential correspondence',
    design='6 (C02), appendix A.3')
