"""C01 - ordered trees hold exactly the inserted-minus-erased multiset, in order."""
import random
from lib.engine import Spec
from lib.core import Case
from checks import treelib as T


class C01(Spec):
    pid = 'C01'
    component = 'tree'
    extra_models = ('treel',)   # pointer-level model (TreeLinksModel.v): must print the same trace
    driver = 'tree'
    lib_srcs = ['bintree.c', 'rbtree.c']
    header_words = ('keys', 'kind', 'cmpmode', 'vsign', 'swapobj', 'nestwalk')

    def more_variants(self, cases, tier, seed):
        return T.swap_variants(cases, seed, every=3) + T.nestwalk_variants(cases, every=4)
    vsign_every = 4
    rule = ('cases = corpus + one case per edge of the breadth-first closure of the Coq model (binary tree and '
            'red-black tree, 5 elements with keys 0 0 1 1 2 and 6 elements 1 0 1 2 0 1 in the quick tier, 6 and 7 elements '
            'in the thorough tier; insert with and without the hint reported by find (found or not), find, erase, foreach '
            'in both directions with every stop position, clear, height, size; closure cases run with comparator results '
            '-1/0/1 and key differences) + seeded random histories (up to ~60 nodes, few distinct keys, three comparator '
            'magnitudes); a case is non-trivial when its '
            'model trace has at least two completed operations; distinct = distinct (header, operations) text')
    trusted = ['modelled, not verified: the C statements of src/bintree.c and src/rbtree.c are transcribed by hand into '
               'TreeModel.v (inductive tree + zipper contexts); comparison callbacks are modelled as key projections; '
               'parent pointers have no counterpart in the model and are checked on the implementation by the driver '
               'decoder at every state']
    assumptions_text = ['an element is linked into the tree at most once (documented precondition)',
                        'insert hints come from find on the same tree for the same element',
                        'the comparison function is a total preorder given by an integer key']

    def oracle(self, case, impl):
        keys, kind = T.keys_of(case)

        def key(i):
            return keys[i] if 0 <= i < len(keys) else 0
        held = set()
        tree = None
        for i, op in enumerate(case.ops):
            w = op.split()
            name = w[0]
            if name in ('insert', 'inserth') and int(w[1]) in held:
                return None                       # outside the domain
            if i >= len(impl):
                return ('%s:no-output' % name, 'no output for operation %d (%s)' % (i, op))
            line = impl[i]
            if not line.startswith('ok'):
                if line.startswith('precond'):
                    return None
                return ('%s:%s' % (name, line.split()[0]),
                        'operation %d (%s) ended in %s; expected normal return' % (i, op, line))
            try:
                out, size, ntree, bad = T.parse_line(line)
            except Exception as ex:
                return ('%s:garbled' % name, 'unparsable line %r (%s)' % (line, ex))
            if bad:
                return ('%s:malformed' % name, 'after operation %d (%s) the structure is broken: %s' % (i, op, ' '.join(bad)))
            where = 'operation %d (%s)' % (i, op)
            if name in ('insert', 'inserth'):
                e = int(w[1])
                held.add(e)
                if name == 'inserth' and len(out) == 1 and out[0] != -1 and out[0] not in held:
                    return ('inserth:hint-not-held', '%s: find reported parent %d which is not held' % (where, out[0]))
            elif name == 'find':
                eq = [e for e in held if key(e) == int(w[1])]
                if len(out) != 2:
                    return ('find:garbled', '%s: output %s' % (where, out))
                if out[0] == -1 and eq:
                    return ('find:missed', '%s returned NULL although %s compare equal' % (where, sorted(eq)))
                if out[0] != -1 and out[0] not in eq:
                    return ('find:wrong-element', '%s returned element %d which is not a held element with that key' % (where, out[0]))
                if out[1] != -1 and out[1] not in held:
                    return ('find:parent-not-held', '%s reported parent %d which is not held' % (where, out[1]))
            elif name == 'erase':
                eq = [e for e in held if key(e) == int(w[1])]
                if len(out) != 1:
                    return ('erase:garbled', '%s: output %s' % (where, out))
                if out[0] == -1 and eq:
                    return ('erase:missed', '%s returned NULL although %s compare equal' % (where, sorted(eq)))
                if out[0] != -1 and out[0] not in eq:
                    return ('erase:wrong-element', '%s returned element %d which is not a held element with that key' % (where, out[0]))
                held.discard(out[0])
            elif name == 'foreach':
                rev = w[1] == 'rev'
                stop = int(w[2])
                res, flat = out[0], out[1:]
                ev = list(zip(flat[0::2], flat[1::2]))
                r = self.check_visits(ev, res, stop, rev, held, key, tree)
                if r:
                    return ('foreach:' + r[0], '%s: %s' % (where, r[1]))
            elif name == 'clear':
                if sorted(out) != sorted(held):
                    return ('clear:not-each-once', '%s called back for %s, held %s' % (where, out, sorted(held)))
                held = set()
            elif name == 'height':
                if list(T.height(tree)) != out:
                    return ('height:wrong', '%s reported %s, the decoded tree has %s' % (where, out, list(T.height(tree))))
            elif name == 'size':
                if out != [len(held)]:
                    return ('size:wrong', '%s reported %s with %d elements held' % (where, out, len(held)))
            # state after every operation: exactly the held elements, in order
            ino = T.inorder(ntree)
            if sorted(ino) != sorted(held):
                lost = sorted(held - set(ino))
                extra = sorted(set(ino) - held)
                return ('%s:wrong-contents' % name,
                        'after %s the tree holds %s; inserted-minus-erased is %s (lost %s, extra %s)' % (
                            where, ino, sorted(held), lost, extra))
            if any(key(ino[j]) > key(ino[j + 1]) for j in range(len(ino) - 1)):
                return ('%s:not-ordered' % name, 'after %s the in-order sequence %s (keys %s) is not non-decreasing' % (
                    where, ino, [key(x) for x in ino]))
            if size != len(held):
                return ('%s:wrong-size' % name, 'after %s size is %d with %d elements held' % (where, size, len(held)))
            tree = ntree
        return None

    @staticmethod
    def check_visits(ev, res, stop, rev, held, key, tree):
        exp = T.events(tree, rev)
        # the traversal stops at, and returns, the first non-zero visit result
        if 1 <= stop <= len(exp):
            if res != stop:
                return ('wrong-result', 'result %d, the visitor answered %d at visit %d' % (res, stop, stop))
            if len(ev) != stop:
                return ('not-stopped', '%d visits although visit %d answered non-zero' % (len(ev), stop))
        else:
            if res != 0:
                return ('wrong-result', 'result %d although every visit answered 0' % res)
            # complete traversal: the property text, checked directly
            mids = [e for (o, e) in ev if o in (1, 3)]
            if sorted(mids) != sorted(held):
                return ('not-each-once', 'MID/LEAF visits %s, held %s' % (mids, sorted(held)))
            ks = [key(e) for e in mids]
            if not rev and any(ks[j] > ks[j + 1] for j in range(len(ks) - 1)):
                return ('not-ordered', 'forward traversal keys %s' % ks)
            if rev and any(ks[j] < ks[j + 1] for j in range(len(ks) - 1)):
                return ('not-ordered', 'reverse traversal keys %s' % ks)
            for e in held:
                seq = [o for (o, x) in ev if x == e]
                if seq != [3] and seq != [0, 1, 2]:
                    return ('bracketing', 'element %d visited as %s' % (e, [T.ORD.get(o, o) for o in seq]))
        if ev != exp[:len(ev)]:
            return ('wrong-sequence', 'visits %s, the documented order on the decoded tree is %s' % (ev, exp[:len(ev) + 1]))
        return None

    def closure(self, tier):
        # (kind, keys, alphabet, also with cmpmode 1)
        if tier == 'quick':
            scopes = [('bin', [0, 0, 1, 1, 2], 'all', True), ('rb', [0, 0, 1, 1, 2], 'all', True),
                      ('rb', [1, 0, 1, 2, 0, 1], 'all', True)]
        else:
            scopes = [('bin', [0, 0, 1, 1, 2, 2], 'all', True), ('rb', [0, 0, 1, 1, 2, 2], 'all', True),
                      ('bin', [0, 0, 1, 1, 2, 2, 3], 'all-sparse', False), ('rb', [0, 0, 1, 1, 2, 2, 3], 'all-sparse', False),
                      ('bin', [1, 0, 1, 2, 0, 1], 'all-sparse', False), ('rb', [2, 1, 0, 1, 2, 1, 0], 'all-sparse', False)]
        cases, tot = [], dict(states=0, transitions=0, closed=True)
        for kind, keys, mode, both in scopes:
            cs, st = self.bfs([kind, 2000000, mode] + keys)
            cases += T.with_cmpmodes(cs) if both else cs
            tot['states'] += st.get('states', 0)
            tot['transitions'] += st.get('transitions', 0)
            tot['closed'] = tot['closed'] and st.get('closed', False)
        return cases, tot

    def random_cases(self, tier, seed):
        rnd = random.Random(seed * 7919 + 101)
        n = 240 if tier == 'quick' else 1500
        cases = []
        for ci in range(n):
            kind = 'rb' if ci % 2 else 'bin'
            target = rnd.choice([3, 6, 10, 16, 25, 40, 60])
            length = rnd.choice([20, 40, 80, 150]) if tier == 'quick' else rnd.choice([40, 100, 200, 400])
            nkeys = rnd.choice([1, 2, 3, 5, 8, 16])
            cases.append(T.random_history(rnd, kind, 'rnd%d' % ci, target, length, nkeys))
        return cases + T.deep_cases()


SPEC = C01()

MANIFEST = dict(
    text='Coq theorems (Properties_C01.v) over an executable model of src/bintree.c and src/rbtree.c: for every operation '
         'sequence the tree is ordered, holds exactly the inserted-minus-erased elements (size = their number), insert '
         'places the element after the last one not greater (hinted = unhinted), find returns an equal element iff one '
         'is held, erase removes exactly the element find returns, traversals present the in-order sequence with PRE/POST '
         'bracketing and stop at the first non-zero visit result, clear calls back once per element; the red-black '
         'operations have the same in-order effect. The model is tied to the C code on every run by differential '
         'execution (closure of the model state space in a small scope + seeded random histories) under ASan/UBSan, '
         'including every parent pointer.',
    note='trusted: Coq kernel; hand transcription of bintree.c/rbtree.c into TreeModel.v validated only by the correspondence '
         'run; extraction (ExtrOcamlBasic) + OCaml runner; C driver and its decoder; comparison callbacks modelled as key '
         'projections; parent-pointer maintenance is checked on the implementation, not proved',
    technique='Coq proof (invariants + refinement to a bag by induction over operations) + model/code differential correspondence',
    design='6 (C01)')
